"""
Binding self-test (DESIGN 5.3): a good trace is accepted; a trace with one corrupted field or one dropped
action is rejected, naming the field.  Run by MANIFEST.setup_cmd.  No top-level driver code.
"""
import copy, sys
import drive, vlib, model


def main():
    blt = drive.mkblt(4, 2, [(3, [1, 2]), (2, [2, 3]), (2, [3]), (1, [4, 1]), (1, [2, 1, 4])], tie=[3, 1, 2, 4])
    T = drive.run_count(blt, {'rule': 'wigm-prf'})
    N = drive.to_native(T)
    N['fam'] = 'greg'
    N['specrule'] = 'wigm-prf'
    good = dict(N, id=1)
    bad_tally = copy.deepcopy(N)
    bad_tally['id'] = 2
    k = next(i for i, a in enumerate(bad_tally['acts']) if a['tag'] == 'transfer')
    bad_tally['acts'][k]['vote'][2] += 1
    dropped = copy.deepcopy(N)
    dropped['id'] = 3
    del dropped['acts'][k]
    bad_ballot = copy.deepcopy(N)
    bad_ballot['id'] = 4
    bad_ballot['acts'][k]['bal'][0]['w'] += 1
    traces = [good, bad_tally, dropped, bad_ballot]
    verd, _ = vlib.judge(traces, ['C02', 'C06', 'C09', 'C18'], workers=2)
    conf, _ = vlib.conform(traces, model.ALL_DEVS, workers=2)
    ok = True

    def expect(cond, what):
        nonlocal ok
        print(('ok   ' if cond else 'FAIL ') + what)
        ok = ok and cond
    expect(verd[1] == [], 'good trace: no property clause fails')
    expect(conf[1]['verdict'] == 'ACCEPT', 'good trace: is a behaviour of the wigm-prf specification')
    expect(any(cl == 'tally' for _, cl, _ in verd[2]), 'tally +1 unit: C06 tally clause fails')
    expect(conf[2]['verdict'] == 'REJECT' and conf[2]['field'] == 'vote' and conf[2]['at'] == k + 1, 'tally +1 unit: conformance rejects at that action, field vote')
    expect(conf[3]['verdict'] == 'REJECT', 'dropped action: conformance rejects')
    expect(any(cl in ('tally', 'surplus', 'exclusion', 'range') for _, cl, _ in verd[4]), 'ballot weight +1 unit: a C06 clause fails')
    # every shaped generator produces a valid election for every seed (a generator that throws would be a machinery failure
    # of whichever check draws that seed)
    import random, gen
    bad = []
    for name, f in sorted(gen.SHAPES.items()):
        for sd in range(400):
            try:
                pr = f(random.Random(sd))
                wd = set(pr.get('withdrawn') or ())
                elig = [c for c in range(1, pr['nc'] + 1) if c not in wd]
                nb = sum(m for m, r in pr['lines'] if any(c not in wd for c in r)) + sum(m for m, r in pr.get('eqlines') or () if any(c not in wd for g in r for c in g))
                assert 1 <= pr['seats'] <= len(elig), 'seats'
                assert nb >= len(elig), 'ballots'
                assert all(m >= 1 and len(set(r)) == len(r) and r and all(1 <= c <= pr['nc'] for c in r) for m, r in pr['lines']), 'lines'
                assert sorted(pr['tie']) == list(range(1, pr['nc'] + 1)), 'tie'
                drive.mkblt(**pr)
            except Exception as e:        # noqa
                bad.append('%s seed %d: %s %s' % (name, sd, type(e).__name__, e))
                break
    import blt as bltmod, pairs
    for sd in range(300):
        try:
            r = random.Random(sd)
            e = bltmod.abstract_election(r, maxc=6 if sd % 10 else 9)
            bltmod.words_of(bltmod.render_wf(r, e))
            bltmod.denote(e)
            for kw in (dict(wd=True, und=True), dict(wd=True, eq=True), dict(wd=True, wdmin=3), dict(full=True), dict(maxc=5, maxlines=6, maxm=3, wd=True, eq=(sd % 3 == 1))):
                pr = gen.randprofile(r, **kw)
                drive.denotation(pr)
                pairs.present(r, pr, nicks=bool(sd % 2))
                if pr['withdrawn']:
                    pairs.deleted(pr)
                pairs.permuted(r, pr)
        except Exception as e:            # noqa
            bad.append('reader/pair generators seed %d: %s %s' % (sd, type(e).__name__, e))
            break
    expect(not bad, 'all %d shaped generators yield valid elections for 400 seeds each; reader / presentation / pair generators run for 300 seeds %s' % (len(gen.SHAPES), bad[:3]))
    return 0 if ok else 1


if __name__ == '__main__':
    sys.exit(main())
