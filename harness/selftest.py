"""
Binding self-test (DESIGN 5.3): a good trace is accepted; a trace with one corrupted field or one dropped
action is rejected, naming the field.  Run by MANIFEST.setup_cmd.  No top-level driver code.
"""
import copy, sys
import drive, vlib, model


def main():
    blt = drive.mkblt(4, 2, [(3, [1, 2]), (2, [2, 3]), (2, [3]), (1, [4, 1]), (1, [2, 1, 4])], tie=[3, 1, 2, 4])
    T = drive.run_count(blt, {'rule': 'wigm-prf'})
    N = drive.to_native(T)
    N['fam'] = 'greg'
    N['specrule'] = 'wigm-prf'
    good = dict(N, id=1)
    bad_tally = copy.deepcopy(N)
    bad_tally['id'] = 2
    k = next(i for i, a in enumerate(bad_tally['acts']) if a['tag'] == 'transfer')
    bad_tally['acts'][k]['vote'][2] += 1
    dropped = copy.deepcopy(N)
    dropped['id'] = 3
    del dropped['acts'][k]
    bad_ballot = copy.deepcopy(N)
    bad_ballot['id'] = 4
    bad_ballot['acts'][k]['bal'][0]['w'] += 1
    traces = [good, bad_tally, dropped, bad_ballot]
    verd, _ = vlib.judge(traces, ['C02', 'C06', 'C09', 'C18'], workers=2)
    conf, _ = vlib.conform(traces, model.ALL_DEVS, workers=2)
    ok = True

    def expect(cond, what):
        nonlocal ok
        print(('ok   ' if cond else 'FAIL ') + what)
        ok = ok and cond
    expect(verd[1] == [], 'good trace: no property clause fails')
    expect(conf[1]['verdict'] == 'ACCEPT', 'good trace: is a behaviour of the wigm-prf specification')
    expect(any(cl == 'tally' for _, cl, _ in verd[2]), 'tally +1 unit: C06 tally clause fails')
    expect(conf[2]['verdict'] == 'REJECT' and conf[2]['field'] == 'vote' and conf[2]['at'] == k + 1, 'tally +1 unit: conformance rejects at that action, field vote')
    expect(conf[3]['verdict'] == 'REJECT', 'dropped action: conformance rejects')
    expect(any(cl in ('tally', 'surplus', 'exclusion', 'range') for _, cl, _ in verd[4]), 'ballot weight +1 unit: a C06 clause fails')
    return 0 if ok else 1


if __name__ == '__main__':
    sys.exit(main())
