"""
Child entry point for C20: count ONE election in a fresh interpreter and print its renderings'
digests and its native trace as JSON.  Never spawns a process; imports no driver code.
usage: python fresh.py   (target as JSON on stdin: {"blt":..., "opts":..., "lowprec":...})
"""
import sys, os, json, hashlib

HERE = os.path.dirname(os.path.abspath(__file__))
if HERE not in sys.path:
    sys.path.insert(0, HERE)


def outputs(blt, opts, lowprec, profile=None):
    import drive
    T = drive.run_count(blt, opts, lowprec=tuple(lowprec) if lowprec else None, keepE=True, profile=profile)
    E = T.get('_E')
    res = dict(outcome=T['outcome'], exc=T['exc'])
    if E is not None and T['outcome'] in ('ok', 'exc'):
        try:
            res['report'] = hashlib.sha1(E.report().encode()).hexdigest()
            res['dump'] = hashlib.sha1(E.dump().encode()).hexdigest()
            res['json'] = hashlib.sha1(E.json().encode()).hexdigest()
        except Exception as e:
            res['render_exc'] = type(e).__name__
    N = drive.to_native(T)
    if N is not None:
        N['fam'] = drive.fam(T['rule'])
    res['trace'] = N
    return res


if __name__ == '__main__':
    t = json.load(sys.stdin)
    print(json.dumps(outputs(t['blt'], t['opts'], t.get('lowprec'))))
