"""
Shared machinery: TLC wrapper (resource discipline of DESIGN 4.6), trace judging,
evidence files, known findings, replay files.  No top-level driver code.
"""
import os, sys, re, json, time, shutil, subprocess, tempfile, signal

VERIF = os.path.dirname(os.path.dirname(os.path.abspath(__file__)))
SPEC = os.path.join(VERIF, 'spec')
EVID = os.environ.get('VERIF_EVIDENCE_DIR') or os.path.join(VERIF, 'evidence')   # seeded-change runs write elsewhere
REPLAYS = os.path.join(EVID, 'replays')
JAR = '/opt/veriftools/tla/tla2tools.jar:/opt/veriftools/tla/CommunityModules-deps.jar'


class Machinery(Exception):
    "machinery failure: exit 2, never a VIOLATION"


def seed():
    try:
        return int(os.environ.get('VERIF_SEED', '1'))
    except ValueError:
        return 1


def mem_available_mb():
    try:
        for l in open('/proc/meminfo'):
            if l.startswith('MemAvailable'):
                return int(l.split()[1]) // 1024
    except OSError:
        pass
    return 8192


def tlc(module, cfg_text, env=None, workers=8, heap_mb=2048, timeout=1800, extra=(), deadlock=False, simulate=None, mc_text=None, stack_mb=64):
    """
    Run TLC on spec/<module>.tla with the given cfg text.  Returns dict(out, states, distinct,
    rc, wall).  The metadir and the cfg live in a fresh temp dir outside /repo and /verif.
    """
    need = heap_mb + 1024
    t0 = time.time()
    while mem_available_mb() < need and time.time() - t0 < 120:
        time.sleep(5)
    if mem_available_mb() < need:
        heap_mb = max(512, mem_available_mb() - 1024)
        workers = min(workers, 4)
        if mem_available_mb() < 1536:
            raise Machinery('insufficient memory for TLC')
    tmp = tempfile.mkdtemp(prefix='vtlc-')
    try:
        cfg = os.path.join(tmp, module + '.cfg')
        with open(cfg, 'w') as f:
            f.write(cfg_text)
        target = os.path.join(SPEC, module + '.tla')
        if mc_text is not None:
            target = os.path.join(tmp, module + '.tla')
            with open(target, 'w') as f:
                f.write(mc_text)
        cmd = ['java', '-XX:+UseParallelGC', '-Xmx%dm' % heap_mb, '-Xss%dm' % stack_mb, '-Djava.io.tmpdir=' + tmp, '-DTLA-Library=' + SPEC, '-cp', JAR, 'tlc2.TLC',
               '-workers', str(workers), '-fpmem', '0.05', '-metadir', os.path.join(tmp, 'meta'),
               '-noGenerateSpecTE', '-config', cfg]
        if not deadlock:
            cmd += ['-deadlock']
        if simulate:
            cmd += ['-simulate', simulate]
        cmd += list(extra) + [target]
        e = dict(os.environ)
        e.pop('JAVA_TOOL_OPTIONS', None)
        if env:
            e.update(env)
        st = time.time()
        p = subprocess.Popen(cmd, stdout=subprocess.PIPE, stderr=subprocess.STDOUT, env=e, cwd=(tmp if mc_text is not None else SPEC),
                             start_new_session=True, text=True)
        try:
            out, _ = p.communicate(timeout=timeout)
        except subprocess.TimeoutExpired:
            os.killpg(p.pid, signal.SIGKILL)
            out, _ = p.communicate()
            if simulate:
                return dict(out=out, rc=-9, states=0, distinct=0, wall=time.time() - st, timeout=True)
            raise Machinery('TLC timeout after %ds on %s' % (timeout, module))
        res = dict(out=out, rc=p.returncode, wall=time.time() - st, states=0, distinct=0, timeout=False)
        m = re.findall(r'(\d+) states generated, (\d+) distinct states found', out)
        if m:
            res['states'], res['distinct'] = int(m[-1][0]), int(m[-1][1])
        return res
    finally:
        shutil.rmtree(tmp, ignore_errors=True)


def tlc_ok(res, what):
    "raise Machinery if TLC itself failed (parse error, evaluation error), as opposed to a verdict"
    out = res['out']
    if 'Error:' in out and 'Invariant' not in out.split('Error:')[1][:200] and 'is violated' not in out:
        raise Machinery('TLC error in %s:\n%s' % (what, out[-3000:]))
    if res['rc'] not in (0, 12, 13) and not res.get('timeout'):
        raise Machinery('TLC rc=%s in %s:\n%s' % (res['rc'], what, out[-3000:]))


_VERD = re.compile(r'^"<<\\"VERDICT\\", (\d+), (\{.*\})>>"\s*$', re.M)
_FAIL = re.compile(r'<<\\"(C\d+)\\", \\"(\w+)\\", (\d+)>>')


def judge(traces, props, workers=8, heap_mb=2048, timeout=1800, module='TraceProps'):
    """
    traces: list of native-encoded trace dicts with unique integer 'id'.
    Returns (verdicts: id -> [(prop, clause, k)], tlcres).  Every trace must receive a verdict.
    """
    if not traces:
        return {}, dict(states=0, distinct=0, wall=0.0, out='')
    tmp = tempfile.mkdtemp(prefix='vtr-')
    try:
        path = os.path.join(tmp, 'traces.ndjson')
        with open(path, 'w') as f:
            for t in traces:
                f.write(json.dumps(t, separators=(',', ':')) + '\n')
        nw = max(1, min(workers, len(traces)))
        cfg = 'INIT Init\nNEXT Next\nINVARIANT Judged\nCONSTANTS\n  PropSet = {%s}\n  NW = %d\n' % (
            ', '.join('"%s"' % p for p in props), nw)
        res = tlc(module, cfg, env={'TRACE_FILE': path}, workers=nw, heap_mb=heap_mb, timeout=timeout)
    finally:
        shutil.rmtree(tmp, ignore_errors=True)
    verd = {}
    for m in _VERD.finditer(res['out']):
        verd[int(m.group(1))] = [(a, b, int(c)) for a, b, c in _FAIL.findall(m.group(2))]
    ids = set(t['id'] for t in traces)
    if set(verd) != ids:
        raise Machinery('TLC judged %d of %d traces:\n%s' % (len(verd), len(ids), res['out'][-3000:]))
    return verd, res


_CONF = re.compile(r'^"<<\\"CONF\\", (\d+), \\"(\w+)\\", (\d+), \\"([^"\\]*)\\", \{(.*?)\}, \{(.*?)\}>>"\s*$', re.M)


def conform(traces, devs, workers=8, heap_mb=2048, timeout=1800):
    """
    Lock-step conformance of recorded traces against the rule specifications (spec/TraceCount.tla).
    Returns (id -> dict(verdict, at, field, devs, warn), tlcres).
    """
    if not traces:
        return {}, dict(states=0, distinct=0, wall=0.0, out='')
    tmp = tempfile.mkdtemp(prefix='vtr-')
    try:
        path = os.path.join(tmp, 'traces.ndjson')
        with open(path, 'w') as f:
            for t in traces:
                f.write(json.dumps(t, separators=(',', ':')) + '\n')
        nw = max(1, min(workers, len(traces)))
        mc = '---- MODULE MCT ----\nEXTENDS TraceCount\nMC_DEVS == {%s}\n====\n' % ', '.join('"%s"' % d for d in devs)
        cfg = 'INIT Init\nNEXT Next\nCONSTANTS\n  NW = %d\n  DEVS <- MC_DEVS\n' % nw
        res = tlc('MCT', cfg, env={'TRACE_FILE': path}, workers=nw, heap_mb=heap_mb, timeout=timeout, mc_text=mc)
    finally:
        shutil.rmtree(tmp, ignore_errors=True)
    out = {}
    for m in _CONF.finditer(res['out']):
        names = lambda x: [y.replace('\\"', '').replace('"', '').strip() for y in x.split(',') if y.strip()]
        out[int(m.group(1))] = dict(verdict=m.group(2), at=int(m.group(3)), field=m.group(4), devs=names(m.group(5)), warn=names(m.group(6)))
    ids = set(t['id'] for t in traces)
    if set(out) != ids:
        raise Machinery('TLC conformance judged %d of %d traces:\n%s' % (len(out), len(ids), res['out'][-3000:]))
    return out, res


_ARITH = re.compile(r'^"<<\\"ARITH\\", (\d+), \{(.*)\}>>"\s*$', re.M)


def judge_arith(calls, workers=8, heap_mb=2048, timeout=1800):
    "returns (id -> [failure names], tlcres); calls without a line passed every law"
    tmp = tempfile.mkdtemp(prefix='vtr-')
    try:
        path = os.path.join(tmp, 'calls.ndjson')
        with open(path, 'w') as f:
            for t in calls:
                f.write(json.dumps(t, separators=(',', ':')) + '\n')
        nw = max(1, min(workers, len(calls)))
        cfg = 'INIT Init\nNEXT Next\nINVARIANT Judged\nCONSTANTS\n  NW = %d\n' % nw
        res = tlc('TraceArith', cfg, env={'TRACE_FILE': path}, workers=nw, heap_mb=heap_mb, timeout=timeout)
    finally:
        shutil.rmtree(tmp, ignore_errors=True)
    if res['out'].count('ARITHDONE') != nw or res['distinct'] != len(calls):
        i = res['out'].find('Error:')
        raise Machinery('TLC judged %d of %d arithmetic calls:\n%s' % (res['distinct'], len(calls), res['out'][i:i + 2500] if i >= 0 else res['out'][-3000:]))
    out = {}
    for m in _ARITH.finditer(res['out']):
        out[int(m.group(1))] = re.findall(r'\\"([^"\\]+)\\"', m.group(2))
    return out, res


_INTR = re.compile(r'^"<<\\"INTR\\", (\d+), \{(.*)\}>>"\s*$', re.M)


def judge_intr(recs, workers=8, heap_mb=1024, timeout=900, chunk=20000):
    if len(recs) > chunk:
        out, res = {}, None
        for lo in range(0, len(recs), chunk):
            o, r = judge_intr(recs[lo:lo + chunk], workers, heap_mb, timeout, chunk)
            out.update(o)
            if res is None:
                res = r
            else:
                res = dict(r, distinct=res['distinct'] + r['distinct'], states=res['states'] + r['states'], wall=res['wall'] + r['wall'], out=res['out'][-20000:] + r['out'])
        return out, res
    tmp = tempfile.mkdtemp(prefix='vtr-')
    try:
        path = os.path.join(tmp, 'recs.ndjson')
        with open(path, 'w') as f:
            for t in recs:
                f.write(json.dumps(t, separators=(',', ':')) + '\n')
        nw = max(1, min(workers, len(recs)))
        cfg = 'INIT Init\nNEXT Next\nINVARIANT Judged\nCONSTANTS\n  NW = %d\n' % nw
        res = tlc('TraceInterrupt', cfg, env={'TRACE_FILE': path}, workers=nw, heap_mb=heap_mb, timeout=timeout)
    finally:
        shutil.rmtree(tmp, ignore_errors=True)
    if res['out'].count('INTRDONE') != nw or res['distinct'] != len(recs):
        i = res['out'].find('Error:')
        raise Machinery('TLC judged %d of %d crash points:\n%s' % (res['distinct'], len(recs), res['out'][i:i + 2500] if i >= 0 else res['out'][-2500:]))
    out = {}
    for m in _INTR.finditer(res['out']):
        out[int(m.group(1))] = re.findall(r'\\"([^"\\]+)\\"', m.group(2))
    return out, res


_RENDER = re.compile(r'^"<<\\"RENDER\\", (\d+), (\{.*\})>>"\s*$', re.M)


def judge_render(recs, workers=8, heap_mb=2048, timeout=900):
    tmp = tempfile.mkdtemp(prefix='vtr-')
    try:
        path = os.path.join(tmp, 'recs.ndjson')
        with open(path, 'w') as f:
            for t in recs:
                f.write(json.dumps(t, separators=(',', ':')) + '\n')
        nw = max(1, min(workers, len(recs)))
        cfg = 'INIT Init\nNEXT Next\nINVARIANT Judged\nCONSTANTS\n  NW = %d\n' % nw
        res = tlc('TraceRender', cfg, env={'TRACE_FILE': path}, workers=nw, heap_mb=heap_mb, timeout=timeout)
    finally:
        shutil.rmtree(tmp, ignore_errors=True)
    out = {}
    for m in _RENDER.finditer(res['out']):
        out[int(m.group(1))] = [(a, int(b)) for a, b in _PFAIL.findall(m.group(2))]
    if set(out) != set(t['id'] for t in recs):
        i = res['out'].find('Error:')
        raise Machinery('TLC judged %d of %d renderings:\n%s' % (len(out), len(recs), res['out'][i:i + 2500] if i >= 0 else res['out'][-2500:]))
    return out, res


_BLT = re.compile(r'^"<<\\"BLT\\", (\d+), \{(.*)\}>>"\s*$', re.M)


def judge_blt(recs, fixed, workers=8, heap_mb=2048, timeout=900):
    tmp = tempfile.mkdtemp(prefix='vtr-')
    try:
        path = os.path.join(tmp, 'recs.ndjson')
        with open(path, 'w') as f:
            for t in recs:
                f.write(json.dumps(t, separators=(',', ':')) + '\n')
        nw = max(1, min(workers, len(recs)))
        cfg = 'INIT Init\nNEXT Next\nINVARIANT Judged\nCONSTANTS\n  NW = %d\n  FIXED = {%s}\n' % (nw, ', '.join('"%s"' % x for x in fixed))
        res = tlc('TraceBlt', cfg, env={'TRACE_FILE': path}, workers=nw, heap_mb=heap_mb, timeout=timeout, stack_mb=1024)   # files of 257 candidates recurse deeply
    finally:
        shutil.rmtree(tmp, ignore_errors=True)
    if res['out'].count('BLTDONE') != nw or res['distinct'] != len(recs):
        i = res['out'].find('Error:')
        raise Machinery('TLC judged %d of %d texts:\n%s' % (res['distinct'], len(recs), res['out'][i:i + 2500] if i >= 0 else res['out'][-2500:]))
    out = {}
    for m in _BLT.finditer(res['out']):
        out[int(m.group(1))] = re.findall(r'\\"([^"\\]+)\\"', m.group(2))
    return out, res


_PAIR = re.compile(r'^"<<\\"PAIR\\", (\d+), (TRUE|FALSE), (\{.*\})>>"\s*$', re.M)
_PFAIL = re.compile(r'<<\\"([^"\\]*)\\", (\d+)>>')


def judge_pairs(pairs, workers=8, heap_mb=2048, timeout=1800):
    "pairs: list of dicts with id, rel, a, b, map, obs, unit.  Returns (id -> (vacuous, [(clause, k)]), tlcres)"
    if not pairs:
        return {}, dict(states=0, distinct=0, wall=0.0, out='')
    tmp = tempfile.mkdtemp(prefix='vtr-')
    try:
        path = os.path.join(tmp, 'pairs.ndjson')
        with open(path, 'w') as f:
            for t in pairs:
                f.write(json.dumps(t, separators=(',', ':')) + '\n')
        nw = max(1, min(workers, len(pairs)))
        cfg = 'INIT Init\nNEXT Next\nINVARIANT Judged\nCONSTANTS\n  NW = %d\n' % nw
        res = tlc('TracePairs', cfg, env={'TRACE_FILE': path}, workers=nw, heap_mb=heap_mb, timeout=timeout)
    finally:
        shutil.rmtree(tmp, ignore_errors=True)
    out = {}
    for m in _PAIR.finditer(res['out']):
        out[int(m.group(1))] = (m.group(2) == 'TRUE', [(a, int(b)) for a, b in _PFAIL.findall(m.group(3))])
    ids = set(t['id'] for t in pairs)
    if set(out) != ids:
        raise Machinery('TLC judged %d of %d pairs:\n%s' % (len(out), len(ids), res['out'][-3000:]))
    return out, res


# ----------------------------------------------------------------------------------------
def load_known():
    p = os.path.join(VERIF, 'known_findings.json')
    try:
        return json.load(open(p))
    except OSError:
        return []


def write_replay(prop, n, payload):
    os.makedirs(REPLAYS, exist_ok=True)
    path = os.path.join(REPLAYS, '%s-%d.json' % (prop, n))
    with open(path, 'w') as f:
        json.dump(payload, f, indent=1, default=str)
    return path


def write_evidence(prop, tier, level, coverage, wall, violations, assumptions=()):
    os.makedirs(EVID, exist_ok=True)
    ev = dict(property_id=prop, tier=tier, seed=seed(), level=level, coverage=coverage,
              assumptions=list(assumptions), wall_s=round(wall, 2), violations=violations)
    with open(os.path.join(EVID, prop + '.json'), 'w') as f:
        json.dump(ev, f, indent=1, default=str)
    return ev


class Result:
    "accumulates what one check run covered and found"
    def __init__(self, prop, tier):
        self.prop = prop
        self.tier = tier
        self.t0 = time.time()
        self.violations = []     # (what, payload)
        self.known = {}          # finding id -> (count, text)
        self.cov = dict(states=0, transitions=0, traces_validated_against_impl=0, evaluations=0,
                        distinct_nontrivial=0, samples=[], stages=[], rule='', exhaustive=False)
        self.assumptions = []

    def stage(self, name, **kw):
        d = dict(name=name)
        d.update(kw)
        self.cov['stages'].append(d)

    def sample(self, s):
        if len(self.cov['samples']) < 6:
            self.cov['samples'].append(s)

    def add_tlc(self, res):
        self.cov['states'] += res.get('distinct', 0)
        self.cov['transitions'] += res.get('states', 0)

    def violation(self, what, payload):
        self.violations.append((what, payload))

    def known_finding(self, fid, text):
        c, _ = self.known.get(fid, (0, text))
        self.known[fid] = (c + 1, text)

    def finish(self):
        wall = time.time() - self.t0
        for fid, (c, text) in sorted(self.known.items()):
            print('KNOWN-FINDING: property=%s %s [%s; observed %d time(s) in this run]' % (self.prop, text, fid, c))
        self.cov['known_findings_observed'] = {k: v[0] for k, v in self.known.items()}
        nv = 0
        for what, payload in self.violations:
            if nv >= 5:
                break
            nv += 1
            path = write_replay(self.prop, nv, dict(property=self.prop, what=what, **payload))
            print('VIOLATION property=%s replay=%s' % (self.prop, path))
            print('  ' + what)
        if self.cov['states'] == 0:
            self.cov['states'] = max(1, self.cov['evaluations'])
        if self.cov['transitions'] == 0:
            self.cov['transitions'] = max(1, self.cov['evaluations'])
        if not self.cov['samples']:
            self.cov['samples'] = ['(no sample recorded)']
        write_evidence(self.prop, self.tier, 'model_checking', self.cov, wall, len(self.violations), self.assumptions)
        print('%s %s: %d violation(s), %d known finding kind(s), %.1fs' % (self.prop, self.tier, len(self.violations), len(self.known), wall))
        return 1 if self.violations else 0
