"""
Driver: run the real droop code on an input and record an observation trace.

No repository hook is needed: the harness wraps Election.logAction on the
instance (and Candidate.elect/defeat/unpend on the candidate instances) from
outside, and reads the exact scaled integers / fractions of the arithmetic
objects.  See DESIGN.md section 5.1 and Appendix A.

This module has no top-level driver code and spawns no process.
"""
import sys, io, os, re, contextlib, signal, math
from fractions import Fraction

REPO = os.environ.get('DROOP_REPO', '/repo')
if REPO not in sys.path:
    sys.path.insert(0, REPO)
sys.dont_write_bytecode = True

from droop.profile import ElectionProfile, ElectionProfileError   # noqa: E402
from droop.election import Election                                 # noqa: E402
from droop.common import UsageError, ElectionError                  # noqa: E402
from droop import values as dvalues                                 # noqa: E402

# class attributes of the arithmetic classes as a fresh interpreter has them (captured at first import, before any initialize())
PRISTINE_CLASS_STATE = {c: dict(c.__dict__) for c in (dvalues.fixed.Fixed, dvalues.guarded.Guarded, dvalues.rational.Rational)}

RULES = ['wigm', 'wigm-prf', 'wigm-prf-batch', 'cfer', 'cfer-batch', 'scotland', 'mpls',
         'meek', 'warren', 'meek-prf', 'qpq']
GREG = ['wigm', 'wigm-prf', 'wigm-prf-batch', 'cfer', 'cfer-batch', 'scotland', 'mpls']
MEEK = ['meek', 'warren', 'meek-prf']
STATUTORY = ['wigm-prf', 'wigm-prf-batch', 'meek-prf', 'scotland', 'mpls', 'cfer', 'cfer-batch', 'qpq']
INTMAX = 2**31 - 1
MARKER = '** count interrupted; this round is incomplete **'


def fam(rule):
    return 'greg' if rule in GREG else ('meek' if rule in MEEK else 'qpq')


# ----------------------------------------------------------------------------------------
#  BLT rendering of an abstract profile
# ----------------------------------------------------------------------------------------
def cname(c):
    return 'c%d' % c


_WDFORM = [0]


def mkblt(nc, seats, lines, tie=None, withdrawn=(), undeclared=(), names=None, opts=None,
          eqlines=(), title='t', **_):
    "lines: [(m, [cid...])]; eqlines: [(m, [[cid...], ...])]"
    s = '%d %d\n' % (nc, seats)
    if tie:
        s += '[tie %s]\n' % ' '.join(map(str, tie))
    if withdrawn:
        wl = list(withdrawn)
        _WDFORM[0] += 1
        form = _WDFORM[0] % 4 if len(wl) >= 2 else 0
        # withdrawals may be declared in several places of a file; they accumulate
        if form == 1:
            s += '-%d\n[withdrawn %s]\n' % (wl[0], ' '.join(map(str, wl[1:])))
        elif form == 3:
            s += '[withdrawn %s]\n[withdrawn %s]\n' % (' '.join(map(str, wl[:-1])), wl[-1])
        else:
            s += '[withdrawn %s]\n' % ' '.join(map(str, wl))
    if undeclared:
        s += '[undeclared %s]\n' % ' '.join(map(str, undeclared))
    if opts:
        s += '[droop %s]\n' % ' '.join(opts)
    for m, r in lines:
        s += '%d %s 0\n' % (m, ' '.join(map(str, r)))
    for m, r in eqlines:
        s += '%d %s 0\n' % (m, ' '.join('='.join(map(str, g)) for g in r))
    s += '0\n'
    names = names or [cname(i) for i in range(1, nc + 1)]
    s += ' '.join('"%s"' % n for n in names) + '\n"%s"\n' % title
    return s


# ----------------------------------------------------------------------------------------
#  message classes (closed enumeration; TLA+ never parses free text)
# ----------------------------------------------------------------------------------------
_MC = [
    ('elect', 'Elect, transfer pending', 'elect_pending'),
    ('elect', 'Elect remaining', 'elect_remaining'),
    ('elect', 'Elect all', 'elect_all'),
    ('elect', 'Elect pending', 'elect_pending_final'),
    ('elect', 'Elect high quotient', 'elect_quotient'),
    ('elect', 'Candidate at threshold', 'elect_threshold'),
    ('elect', 'Elect', 'elect'),
    ('defeat', 'Defeat remaining', 'defeat_remaining'),
    ('defeat', 'Defeat batch(zero)', 'defeat_zero'),
    ('defeat', 'Defeat sure loser', 'defeat_sure'),
    ('defeat', 'Defeat certain loser', 'defeat_certain'),
    ('defeat', 'Defeat undeclared write-in', 'defeat_undeclared'),
    ('defeat', 'Defeat low candidate', 'defeat_low'),
    ('defeat', 'Defeat low quotient', 'defeat_quotient'),
    ('defeat', 'Defeat batch', 'defeat_batch'),
    ('defeat', 'Defeat (surplus', 'defeat_omega'),
    ('defeat', 'Defeat (stable surplus', 'defeat_stable'),
    ('defeat', 'Defeat', 'defeat'),
    ('transfer', 'Surplus transferred', 'transfer_surplus'),
    ('transfer', 'Transfer surplus', 'transfer_surplus'),
    ('transfer', 'Transfer defeated', 'transfer_defeated'),
    ('transfer', 'Transfer elected', 'transfer_elected'),
    ('unpend', 'Transfer high surplus', 'unpend'),
    ('unpend', 'Transfer surplus', 'unpend'),
    ('tie', 'Break tie by prior stage', 'tie_prior'),
    ('tie', 'Break tie by lot', 'tie_lot'),
    ('tie', 'Break tie', 'tie'),
    ('iterate', 'Iterate (omega)', 'iterate_omega'),
    ('iterate', 'Iterate (elected)', 'iterate_elected'),
    ('iterate', 'Iterate (stable)', 'iterate_stable'),
    ('iterate', 'Iterate (batch)', 'iterate_batch'),
    ('begin', 'Begin Count', 'begin'),
    ('end', 'Count Complete', 'end'),
    ('round', 'New Round', 'round'),
    ('count', 'Count Votes', 'count'),
    ('log', 'Add eligible', 'log_eligible'),
    ('log', 'Add withdrawn', 'log_withdrawn'),
    ('log', 'Add undeclared', 'log_undeclared'),
    ('log', 'Stable state detected', 'log_stable'),
    ('log', MARKER, 'log_interrupt'),
]


def msgclass(tag, msg):
    for t, prefix, mc in _MC:
        if t == tag and msg.startswith(prefix):
            return mc
    return 'other_' + tag


_name_re = re.compile(r'c(\d+)$')


def names_to_cids(s):
    out = []
    for nm in s.split(', '):
        m = _name_re.match(nm.strip())
        if m:
            out.append(int(m.group(1)))
        else:
            return None
    return out


def parse_tie(msg):
    "Break tie ...: [c1, c2] -> c1   => (kind, tied cids, chosen cid)"
    m = re.search(r'\((.*?)\): \[(.*)\] -> (.*)$', msg)
    if not m:
        return None
    reason = m.group(1)
    kind = 'defeat' if ('defeat' in reason or 'smallest' in reason) else 'surplus'
    tied = names_to_cids(m.group(2))
    ch = names_to_cids(m.group(3))
    if tied is None or ch is None:
        return None
    return kind, tied, ch[0]


def parse_transfer(msg):
    "names after ': ' up to ' (' => cids"
    body = msg.split(': ', 1)[1] if ': ' in msg else ''
    body = body.split(' (')[0]
    return names_to_cids(body) or []


# ----------------------------------------------------------------------------------------
#  running one count
# ----------------------------------------------------------------------------------------
class Budget(Exception):
    pass


def _alarm(sig, frm):
    raise Budget()


def val(v):
    "exact value of an arithmetic object: scaled int, or Fraction for rationals"
    if v is None:
        return None
    if hasattr(v, '_value'):
        return v._value
    if isinstance(v, Fraction):
        return Fraction(v.numerator, v.denominator)
    if isinstance(v, int):
        return v
    raise TypeError(type(v))


def scale_of(V):
    if V.name == 'rational':
        return 0
    if V.name == 'guarded':
        return 10 ** (V.precision + V.guard)
    return 10 ** V.precision


def geps_of(V):
    if V.name == 'guarded':
        return max(10 ** V.guard // 2, 1)
    return 1


class Patch:
    "temporarily set class attributes (used for reduced-precision statutory procedures)"
    def __init__(self, items):
        self.items = items
        self.saved = []

    def __enter__(self):
        for obj, name, value in self.items:
            self.saved.append((obj, name, getattr(obj, name)))
            setattr(obj, name, value)

    def __exit__(self, *a):
        for obj, name, value in reversed(self.saved):
            setattr(obj, name, value)


def lowprec_patch(rule, p, g=None, omega=None):
    """
    Reduced-precision variant of a statutory rule: the count() body that runs is the repository's;
    only the statutory constants are replaced, so that the procedure meets its boundary cases
    (tallies landing exactly on a fractional quota) on small electorates and so that TLC can
    validate it with native 32-bit integers.  Returns a context manager.
    """
    from droop.rules import meek_prf, qpq, cfer, wigm_prf, scotland, mpls
    if rule == 'meek-prf':
        return Patch([(meek_prf.Rule, 'precision', p), (meek_prf.Rule, 'omega10', omega if omega is not None else max(1, p * 2 // 3))])
    if rule in ('cfer', 'cfer-batch'):
        return Patch([(cfer.Rule, 'precision', p)])
    if rule in ('wigm-prf', 'wigm-prf-batch'):
        return Patch([(wigm_prf.Rule, 'precision', p)])
    if rule in ('scotland', 'mpls'):
        def options_f(self):
            self.E.options.setopt('arithmetic', default='fixed', force=True)
            self.E.options.setopt('precision', default=p, force=True)
            self.E.options.setopt('display', default=p, force=True)
        return Patch([((scotland if rule == 'scotland' else mpls).Rule, 'options', options_f)])
    if rule == 'qpq':
        gg = p if g is None else g

        def options(self):
            self.E.options.setopt('arithmetic', default='guarded', force=True)
            self.E.options.setopt('precision', default=p, force=True)
            self.E.options.setopt('guard', default=gg, force=True)
            self.E.options.setopt('display', default=p, force=True)
        return Patch([(qpq.Rule, 'options', options)])
    return Patch([])


def denotation(pr):
    """what a generated profile `pr' denotes, independently of the library's reader: withdrawn candidates removed from every
    ranking, papers left empty dropped, tie order as positions (used as the trace header, so that every monitor judges the count
    against the election in the FILE, not against what the library read back from it)"""
    nc = pr['nc']
    wd = set(pr.get('withdrawn') or ())
    lines = []
    for m, r in pr['lines']:
        rr = [c for c in r if c not in wd]
        if rr:
            lines.append(dict(m=m, r=rr))
    eq = []
    for m, r in pr.get('eqlines') or ():
        gg = [[c for c in g if c not in wd] for g in r]
        gg = [g for g in gg if g]
        if not gg:
            continue
        if any(len(g) > 1 for g in gg):
            eq.append(dict(m=m, r=gg))
        else:
            lines.append(dict(m=m, r=[g[0] for g in gg]))          # no equal rank left: an ordinary paper (kept after the strict ones? no: see below)
    tie = pr.get('tie') or list(range(1, nc + 1))
    pos = {c: i + 1 for i, c in enumerate(tie)}
    return dict(nc=nc, seats=pr['seats'], wd=[c in wd for c in range(1, nc + 1)], und=[c in set(pr.get('undeclared') or ()) for c in range(1, nc + 1)],
                tie=[pos.get(c, 0) for c in range(1, nc + 1)], lines=lines, eq=eq,
                n=sum(l['m'] for l in lines) + sum(l['m'] for l in eq))


def run_count(blt, opts, budget=10, want_ballots=True, lowprec=None, keepE=False, iters=False, profile=None, denote=None):
    """
    Run Election(ElectionProfile(data=blt), opts).count() and return a trace dict with
    exact numbers (ints / Fractions).  'lowprec' = (p, g, omega) for the reduced-precision
    variants of meek-prf / qpq.
    """
    opts = dict(opts)
    rule = opts.get('rule')
    T = dict(rule=rule, opts=dict(opts), blt=blt, outcome='ok', exc='', acts=[], lowprec=list(lowprec) if lowprec else [])
    E = None
    patch = lowprec_patch(rule, *lowprec) if lowprec else Patch([])
    old = signal.signal(signal.SIGALRM, _alarm)
    saved_div = None
    try:
        with patch:
            p = ElectionProfile(data=blt) if profile is None else profile
            E = Election(p, dict(opts))
            rule = E.rule.name if hasattr(E.rule, 'name') and E.rule.name else opts.get('rule')
            T['rule'] = rule
            V = E.V
            f = fam(rule)
            nc = p.nCand
            orig = E.logAction
            subj = [0]
            pendinglogs = []
            iterbuf = []
            blockopen = [False]

            def snap_iter():
                iterbuf.append(dict(
                    vote=[val(E.C.byCid(c).vote) if c in E.C._byCid and E.C.byCid(c).state != 'withdrawn' else 0 for c in range(1, nc + 1)],
                    kf=[val(E.C.byCid(c).kf) if c in E.C._byCid and E.C.byCid(c).kf is not None else 0 for c in range(1, nc + 1)],
                    quota=val(E.quota), votes=val(E.votes), surplus=val(E.surplus), residual=val(E.residual)))

            def la(tag, msg):
                orig(tag, msg)
                A = E.erecord['actions'][-1]
                mc = msgclass(tag, msg)
                blockopen[0] = False
                if tag == 'log':
                    pendinglogs.append(mc)
                    return
                if tag not in ('elect', 'defeat', 'unpend'):
                    subj[0] = 0      # a silent unpend() (no message) leaves no subject behind
                cs = A['cstate']

                def g(c, k):
                    d = cs.get(c)
                    if d is None:
                        return None
                    return d.get(k)
                code = {'hopeful': 'H', 'elected': 'E', 'defeated': 'D', 'withdrawn': 'W'}
                o = dict(tag=tag, mc=mc, msg=msg, round=A['round'],
                         quota=val(A['quota']), votes=val(A['votes']),
                         st=[code.get(g(c, 'state'), 'X') for c in range(1, nc + 1)],
                         pend=[bool(g(c, 'pending')) for c in range(1, nc + 1)],
                         vote=[val(g(c, 'vote')) if g(c, 'vote') is not None else 0 for c in range(1, nc + 1)],
                         kf=[val(g(c, 'kf')) if g(c, 'kf') is not None else 0 for c in range(1, nc + 1)],
                         quot=[val(g(c, 'quotient')) if g(c, 'quotient') is not None else 0 for c in range(1, nc + 1)],
                         nt=val(A.get('nt_votes')) if A.get('nt_votes') is not None else 0,
                         residual=val(A.get('residual')) if A.get('residual') is not None else 0,
                         surplus=val(A.get('surplus')) if A.get('surplus') is not None else 0,
                         subj=subj[0], subjs=[], tied=[], tiekind='',
                         va=val(getattr(E, 'va', None)) or 0, tx=val(getattr(E, 'tx', None)) or 0,
                         logs=list(pendinglogs), iters=list(iterbuf))
                del pendinglogs[:]
                del iterbuf[:]
                if want_ballots and f != 'meek':
                    o['bal'] = [dict(ix=b.index, w=val(b.weight)) for b in E.ballots]
                else:
                    o['bal'] = []
                if tag == 'transfer':
                    o['subjs'] = parse_transfer(msg)
                    o['subj'] = o['subjs'][0] if len(o['subjs']) == 1 else 0
                elif tag == 'tie':
                    pt = parse_tie(msg)
                    if pt:
                        o['tiekind'], o['tied'], o['subj'] = pt
                    o['subjs'] = [o['subj']] if o['subj'] else []
                else:
                    o['subjs'] = [o['subj']] if o['subj'] else []
                # message must name the subject (C18)
                o['named'] = True
                if tag in ('elect', 'defeat') and subj[0]:
                    o['named'] = msg.rsplit(': ', 1)[-1] == p.candidateName.get(subj[0], cname(subj[0]))
                subj[0] = 0
                T['acts'].append(o)
            E.logAction = la
            for c in E.C:
                for nm in ('elect', 'defeat', 'unpend'):
                    def mk(c, nm):
                        fn = getattr(c, nm)

                        def w(*a, **k):
                            subj[0] = c.cid
                            return fn(*a, **k)
                        return w
                    setattr(c, nm, mk(c, nm))
            if iters and f == 'meek':
                saved_div = V.div

                lastsig = [None]

                def divw(a1, a2, round=None):
                    # one snapshot per iteration: the keep-factor updates of one iteration leave tallies, quota and surplus untouched,
                    # the next iteration's distribution changes them (an iteration that changes nothing ends the round as `stable')
                    sig = (tuple(val(c.vote) for c in E.C), val(E.quota), val(E.surplus), val(E.residual))     # stored values, not their printed form
                    if not blockopen[0] or sig != lastsig[0]:
                        blockopen[0] = True
                        lastsig[0] = sig
                        snap_iter()
                    return saved_div(a1, a2, round=round)
                V.div = divw
            # header
            T.update(
                nc=nc, seats=p.nSeats, n=p.nBallots,
                wd=[c in p.withdrawn for c in range(1, nc + 1)],
                und=[c in p.undeclared for c in range(1, nc + 1)],
                tie=[p.tieOrder.get(c, 0) for c in range(1, nc + 1)],
                lines=[dict(m=bl.multiplier, r=list(bl.ranking)) for bl in p.ballotLines if bl.ranking],
                eq=[dict(m=bl.multiplier, r=[list(g) for g in bl.ranking]) for bl in p.ballotLinesEqual if bl.ranking],
                kind=V.name, p=getattr(V, 'precision', 0) or 0, g=getattr(V, 'guard', 0) or 0 if V.name == 'guarded' else 0,
                S=scale_of(V), geps=geps_of(V), exactq=bool(V.exact),
                intq=bool(getattr(E.rule, 'integer_quota', False)),
                batch=str(getattr(E.rule, 'defeat_batch', '')),
                omega10=int(getattr(E.rule, 'omega10', 0) or 0),
            )
            if denote is not None:
                D = denotation(denote)
                # an equal-rank paper that loses its equal rank to withdrawals is read as an ordinary paper, in file position:
                # the denotation cannot place it without re-implementing the reader's order, so such inputs keep the read-back lines
                if not any(all(len([c for c in g if c not in set(denote.get('withdrawn') or ())]) <= 1 for g in r) for _, r in (denote.get('eqlines') or ())):
                    T['header_read_back'] = dict((k, T[k]) for k in D)
                    T.update(D)
            signal.alarm(budget)
            try:
                with contextlib.redirect_stdout(io.StringIO()):
                    E.count()
            finally:
                signal.alarm(0)
            T['omega'] = val(E.rule.omega) if getattr(E.rule, 'omega', None) is not None else 0
    except Budget:
        T['outcome'] = 'budget'
    except AssertionError as e:
        T['outcome'] = 'exc'
        T['exc'] = 'AssertionError'
    except (ElectionProfileError, UsageError, ElectionError, dvalues.ArithmeticValuesError) as e:
        T['outcome'] = 'reject'
        T['exc'] = type(e).__name__ + ': ' + str(e)[:100]
    except Exception as e:  # anything else during a count is reported as an exception outcome
        T['outcome'] = 'exc'
        T['exc'] = type(e).__name__ + ': ' + str(e)[:100]
    finally:
        signal.alarm(0)
        signal.signal(signal.SIGALRM, old)
        if saved_div is not None:
            E.V.div = saved_div
    if E is not None and T['outcome'] != 'reject' and 'nc' in T:
        T.setdefault('omega', val(E.rule.omega) if getattr(E.rule, 'omega', None) is not None else 0)
        T['elected'] = sorted(c.cid for c in (E.elected or []))
        T['defeated'] = sorted(c.cid for c in (E.defeated or []))
        T['postcount'] = E.elected is not None
    if keepE:
        T['_E'] = E
    return T


# ----------------------------------------------------------------------------------------
#  native encoding for TLC (32-bit integers)
# ----------------------------------------------------------------------------------------
_NUMKEYS = ('quota', 'votes', 'nt', 'residual', 'surplus', 'va', 'tx')
_VECKEYS = ('vote', 'kf', 'quot')


def _allnums(T):
    for a in T['acts']:
        for k in _NUMKEYS:
            yield a[k]
        for k in _VECKEYS:
            for x in a[k]:
                yield x
        for b in a['bal']:
            yield b['w']
        for it in a['iters']:
            for k in ('quota', 'votes', 'surplus', 'residual'):
                yield it[k]
            for k in ('vote', 'kf'):
                for x in it[k]:
                    yield x
    yield T.get('omega', 0)


def to_native(T, limit=INTMAX // 4):
    """
    Return a JSON-able copy of T in which every number is a native int (rational traces are
    scaled by the lcm of all denominators, S = that lcm), or None if some number does not
    fit (such a trace is counted as 'not encodable' by the caller, never silently dropped).
    """
    if 'nc' not in T:
        return None
    S = T['S']
    mult = 1
    if T['kind'] == 'rational':
        l = 1
        for x in _allnums(T):
            if isinstance(x, Fraction):
                l = l * x.denominator // math.gcd(l, x.denominator)
                if l > limit:
                    return None
        mult = l
        S = l

    def cv(x):
        if isinstance(x, Fraction):
            y = x * mult
            assert y.denominator == 1
            return int(y)
        return int(x) * (mult if T['kind'] == 'rational' else 1)
    out = {k: v for k, v in T.items() if k not in ('acts', '_E', 'opts', 'blt', 'omega')}
    out['S'] = S
    out['lowprec'] = [(-1 if x is None else x) for x in (T.get('lowprec') or [])]
    out['omega'] = cv(T.get('omega', 0) or 0)
    acts = []
    big = 0
    for a in T['acts']:
        o = dict(a)
        for k in _NUMKEYS:
            o[k] = cv(a[k])
            big = max(big, abs(o[k]))
        for k in _VECKEYS:
            o[k] = [cv(x) for x in a[k]]
            big = max([big] + [abs(x) for x in o[k]])
        o['bal'] = [dict(ix=b['ix'], w=cv(b['w'])) for b in a['bal']]
        big = max([big] + [abs(b['w']) for b in o['bal']])
        its = []
        for it in a['iters']:
            d = {k: cv(it[k]) for k in ('quota', 'votes', 'surplus', 'residual')}
            d['vote'] = [cv(x) for x in it['vote']]
            d['kf'] = [cv(x) for x in it['kf']]
            big = max([big, abs(d['votes'])] + [abs(x) for x in d['vote']])
            its.append(d)
        o['iters'] = its
        del o['msg']
        acts.append(o)
    if big > limit or S * max(T['n'], 1) > limit:
        return None
    out['acts'] = acts
    out['optstr'] = ' '.join('%s=%s' % kv for kv in sorted(T['opts'].items()))
    return out


# ----------------------------------------------------------------------------------------
#  encodings for counts whose numbers exceed 32 bits (shipping precisions)
# ----------------------------------------------------------------------------------------
def limbs(n):
    "signed little-endian base-10^4 limbs (spec/BigNum.tla)"
    n = int(n)
    neg = n < 0
    n = abs(n)
    mag = []
    while n:
        mag.append(n % 10000)
        n //= 10000
    return dict(neg=neg and bool(mag), mag=mag)


def _map_numbers(T, f):
    out = {k: v for k, v in T.items() if k not in ('acts', '_E', 'opts', 'blt', 'omega')}
    out['lowprec'] = [(-1 if x is None else x) for x in (T.get('lowprec') or [])]
    out['optstr'] = ' '.join('%s=%s' % kv for kv in sorted(T['opts'].items()))
    acts = []
    for a in T['acts']:
        o = dict(a)
        for k in _NUMKEYS:
            o[k] = f(a[k])
        for k in _VECKEYS:
            o[k] = [f(x) for x in a[k]]
        o['bal'] = [dict(ix=b['ix'], w=f(b['w'])) for b in a['bal']]
        o['iters'] = []
        del o['msg']
        acts.append(o)
    out['acts'] = acts
    return out


def to_big(T):
    "limb-encoded copy for spec/BigProps.tla (fixed / guarded arithmetic of any precision); None for rational"
    if 'nc' not in T or T['kind'] == 'rational':
        return None
    out = _map_numbers(T, limbs)
    out['Sb'] = limbs(T['S'])
    out['nSb'] = limbs(T['S'] * T['n'])
    out['nb'] = limbs(T['n'])
    out['n'] = min(T['n'], 2 ** 30)
    for l in out.get('lines', []):
        l['m'] = min(l['m'], 2 ** 30)     # huge multipliers: BigProps uses nb / nSb; m only matters for qpq weights (small profiles)
    out['gepsb'] = limbs(T['geps'])
    out['omegab'] = limbs(T.get('omega', 0) or 0)
    out['S'] = 0
    return out


def to_shadow(T):
    "every number replaced by its sign: enough for the clauses of C01 / C09 / C18 that speak about statuses only"
    if 'nc' not in T:
        return None
    sgn = lambda x: (x > 0) - (x < 0)
    out = _map_numbers(T, sgn)
    out['S'] = 1
    out['geps'] = 1
    out['omega'] = 0
    return out
