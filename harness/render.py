"""
C18 (renderings): parse report(), dump(), json() of a counted election into fields and pair them
with the in-memory record (figures as str(value)).  Judged by spec/Render.tla.  No driver code.
"""
import re, json


def _s(v):
    return '' if v is None else str(v)


def _iv(v):
    return int(getattr(v, '_value', -1)) if v is not None and hasattr(v, '_value') else -1


def act_of(A, nc, get, V0=None):
    "common shape for a record action and a JSON action; get(cstate, cid) -> dict or None"
    o = dict(tag=A['tag'], msg=A['msg'], round=A['round'], quota='', votes='', nt='', residual='', surplus='', cs=[],
             nti=-1, votesi=-1, residuali=-1, surplusi=-1)
    if A['tag'] == 'log':
        return o
    o['nti'], o['votesi'], o['residuali'], o['surplusi'] = _iv(A.get('nt_votes')), _iv(A.get('votes')), _iv(A.get('residual')), _iv(A.get('surplus'))
    o['quota'] = _s(A.get('quota'))
    o['votes'] = _s(A.get('votes'))
    o['nt'] = _s(A.get('nt_votes'))
    o['residual'] = _s(A.get('residual'))
    o['surplus'] = _s(A.get('surplus'))
    cs = []
    for cid in range(1, nc + 1):
        d = get(A['cstate'], cid) or {}
        v = d.get('vote')
        # zeq: zero under the arithmetic's own equality; z: exactly zero (they differ for sub-tolerance guarded values)
        zeq = bool(V0 is not None and v is not None and not isinstance(v, str) and v == V0)
        z = bool(V0 is not None and v is not None and not isinstance(v, str) and not v)
        cs.append(dict(state=d.get('state', ''), code=d.get('code', ''), vote=_s(v), kf=_s(d.get('kf')),
                       quot=_s(d.get('quotient')), pend=bool(d.get('pending')), zeq=zeq, z=z, vi=_iv(v)))
    o['cs'] = cs
    return o


_CAND = re.compile(r'^\t(Elected|Pending|Hopeful|Defeated): +(.*) \(([^()]*)\)$')


_SUMS = {'Elected votes': 'ev', 'Pending votes': 'pv', 'Hopeful votes': 'hv', 'Defeated votes': 'dv', 'Nontransferable votes': 'ntv',
         'Residual': 'res', 'Total': 'tot', 'Surplus': 'sur', 'Votes': 'votes'}


def parse_report(rep, quota_name, toint=None):
    blocks = re.split(r'(?m)^Action: ', rep)[1:]
    out = []
    for b in blocks:
        lines = b.split('\n')
        msg = lines[0]
        cand = []
        quota = ''
        sums = {v: -1 for v in _SUMS.values()}
        for l in lines[1:]:
            if l.startswith('Round ') or (l and not l.startswith('\t')):
                break
            m = _CAND.match(l)
            if m:
                cand.append(dict(label=m.group(1), names=m.group(2).split(', '), fig=m.group(3)))
            elif l.startswith('\t%s: ' % quota_name):
                quota = l.split(': ', 1)[1]
            elif l.startswith('\t') and ': ' in l and l[1:].split(': ', 1)[0] in _SUMS and toint is not None:
                sums[_SUMS[l[1:].split(': ', 1)[0]]] = toint(l.split(': ', 1)[1])
        out.append(dict(msg=msg, cand=cand, quota=quota, sums=sums))
    return out


def build(E):
    "X record for Render.tla from a counted Election"
    rec = E.record()
    nc = E.electionProfile.nCand
    X = dict(method=E.rule.method, quota_name=E.rule.quota_name, ecids=list(rec['ecids']), cids=list(rec['cids']),
             name=[rec['cdict'][c]['name'] if c in rec['cdict'] else '' for c in range(1, nc + 1)])
    X['acts'] = [act_of(A, nc, lambda cs, cid: cs.get(cid), E.V0) for A in rec['actions']]
    X['zero'] = str(E.V0)
    txt = E.json()
    try:
        J = json.loads(txt)
        X['json_ok'] = True
        X['json'] = [act_of(A, nc, lambda cs, cid: cs.get(str(cid))) for A in J['actions']]
        for a, ja in zip(X['acts'], X['json']):     # the two flags are harness observations of the in-memory values, not JSON content
            for k in ('nti', 'votesi', 'residuali', 'surplusi'):
                ja[k] = a[k]
            for c, jc in zip(a['cs'], ja['cs']):
                jc['zeq'], jc['z'], jc['vi'] = c['zeq'], c['z'], c['vi']
    except Exception:
        X['json_ok'] = False
        X['json'] = []
    d = E.dump().split('\n')
    if d and d[-1] == '':
        d = d[:-1]
    X['dump'] = dict(hdr=d[0].split('\t'), rows=[r.split('\t') for r in d[1:]])
    V = E.V
    exactprint = V.name in ('fixed', 'integer') and V.display == V.precision and E.nBallots * 10 ** V.precision < 2 ** 29
    X['tot'] = bool(exactprint)
    X['nS'] = E.nBallots * 10 ** V.precision if exactprint else 0

    def toint(s):
        s = s.strip()
        if not exactprint:
            return -1
        neg = s.startswith('-')
        if '.' in s:
            ip, fp = s.lstrip('-').split('.')
            val = int(ip) * 10 ** V.precision + int(fp.ljust(V.precision, '0')[:V.precision]) if V.precision else int(ip)
        else:
            val = int(s.lstrip('-')) * (10 ** V.precision if V.precision else 1) if V.precision == 0 else int(s.lstrip('-')) * 10 ** V.precision
        return -val if neg else val
    rep_text = E.report()
    X['report'] = parse_report(rep_text, E.rule.quota_name, toint)
    # record header vs JSON header vs report header
    hk = ('title', 'rule_name', 'method', 'arithmetic_name', 'seats', 'nballots', 'quota', 'droop_version')
    X['hdr'] = {k: _s(rec.get(k)) for k in hk}
    X['hdr']['cids'] = [int(c) for c in rec.get('cids', [])]
    X['hdr']['ecids'] = [int(c) for c in rec.get('ecids', [])]
    try:
        X['jhdr'] = {k: _s(J.get(k)) for k in hk}
        X['jhdr']['cids'] = [int(c) for c in J.get('cids', [])]
        X['jhdr']['ecids'] = [int(c) for c in J.get('ecids', [])]
    except Exception:
        X['jhdr'] = dict(X['hdr'], title='<json unreadable>')

    def hline(prefix):
        for l in rep_text.split('\n'):
            if l.startswith(prefix):
                return l[len(prefix):]
        return ''
    X['rhdr'] = dict(title=hline('Election: '), seats=hline('\tSeats: '), nballots=hline('\tBallots: '), quota=hline('\t%s: ' % E.rule.quota_name),
                     rule_info=hline('\tRule: '), arithmetic_info=hline('\tArithmetic: '))
    X['rinfo'] = dict(rule_info=_s(rec.get('rule_info')), arithmetic_info=_s(rec.get('arithmetic_info')))
    return X
