"""
C20: a count is independent of whatever was counted before it in the process.
Histories of elections are run in THIS process; the reference for the election under test comes
from a fresh interpreter (harness/fresh.py, one child per target).  No top-level driver code.
"""
import sys, os, json, subprocess, itertools
from concurrent.futures import ThreadPoolExecutor
import drive, fresh

HERE = os.path.dirname(os.path.abspath(__file__))

# every arithmetic class / display branch: fixed d<p, d=p; integer; guarded d<=p, d>p, g=0; rational d; statutory
HISTORY_CONFIGS = [
    ({'rule': 'wigm', 'arithmetic': 'fixed', 'precision': 4}, None),
    ({'rule': 'wigm', 'arithmetic': 'fixed', 'precision': 6, 'display': 2}, None),
    ({'rule': 'wigm', 'arithmetic': 'integer'}, None),
    ({'rule': 'wigm'}, None),
    ({'rule': 'wigm', 'arithmetic': 'guarded', 'precision': 4, 'guard': 0}, None),
    ({'rule': 'wigm', 'arithmetic': 'guarded', 'precision': 3, 'guard': 3, 'display': 5}, None),
    ({'rule': 'wigm', 'arithmetic': 'guarded', 'precision': 5, 'guard': 2, 'display': 2}, None),
    ({'rule': 'meek', 'arithmetic': 'rational', 'omega': 3}, None),
    ({'rule': 'meek', 'arithmetic': 'rational', 'omega': 3, 'display': 4}, None),
    ({'rule': 'meek', 'arithmetic': 'fixed', 'precision': 5}, None),
    ({'rule': 'meek-prf'}, None),
    ({'rule': 'qpq'}, None),
    ({'rule': 'scotland'}, None),
    ({'rule': 'mpls'}, None),
    ({'rule': 'warren', 'arithmetic': 'guarded', 'precision': 6, 'guard': 3, 'display': 8}, None),
    ({'rule': 'cfer'}, None),
    ({'rule': 'wigm', 'arithmetic': 'rational'}, None),
    ({'rule': 'wigm', 'arithmetic': 'rational', 'display': 3}, None),
    ({'rule': 'wigm', 'arithmetic': 'fixed', 'precision': 2, 'display': 0}, None),
]
# elections under test: natively encodable, so that TLC can also compare the two histories action by action
TARGET_CONFIGS = [
    ({'rule': 'wigm', 'arithmetic': 'fixed', 'precision': 4}, None),
    ({'rule': 'wigm', 'arithmetic': 'fixed', 'precision': 5, 'display': 2}, None),
    ({'rule': 'wigm', 'arithmetic': 'integer'}, None),
    ({'rule': 'wigm', 'arithmetic': 'guarded', 'precision': 4, 'guard': 0}, None),
    ({'rule': 'wigm', 'arithmetic': 'guarded', 'precision': 3, 'guard': 3, 'display': 5}, None),
    ({'rule': 'wigm', 'arithmetic': 'guarded', 'precision': 4, 'guard': 2, 'display': 2}, None),
    ({'rule': 'wigm', 'arithmetic': 'guarded', 'precision': 3, 'guard': 2}, None),
    ({'rule': 'meek', 'arithmetic': 'fixed', 'precision': 4}, None),
    ({'rule': 'meek', 'arithmetic': 'guarded', 'precision': 3, 'guard': 2, 'display': 4}, None),
    ({'rule': 'warren', 'arithmetic': 'fixed', 'precision': 3}, None),
    ({'rule': 'scotland'}, None),
    ({'rule': 'mpls'}, None),
    ({'rule': 'cfer'}, None),
    ({'rule': 'wigm-prf-batch'}, None),
    ({'rule': 'wigm', 'arithmetic': 'rational'}, None),
    ({'rule': 'wigm', 'arithmetic': 'rational', 'display': 3}, None),
    ({'rule': 'meek-prf'}, (4, None, 2)),
    ({'rule': 'qpq'}, (3, 2, None)),
]
EQ_BLT = '4 2 [tie 2 4 1 3] 3 1=2 3 0 2 2=3=4 1 0 2 3 0 1 4=1 2 0 2 1 0 1 2 4 0 0 "c1" "c2" "c3" "c4" "t"'
BLTS = ['4 2 [tie 3 1 2 4] 3 1 2 0 2 2 3 0 2 3 0 1 4 1 0 1 2 1 4 0 0 "c1" "c2" "c3" "c4" "t"',
        '3 1 2 1 0 2 2 1 0 1 3 2 0 0 "c1" "c2" "c3" "t"',
        '5 3 [tie 5 4 3 2 1] 4 1 2 3 0 3 2 1 0 2 3 4 0 2 4 5 1 0 1 5 0 1 1 0 0 "c1" "c2" "c3" "c4" "c5" "t"']


def fresh_reference(targets, workers=12):
    "targets: list of (blt, opts, lowprec) -> list of result dicts, each computed by its own interpreter"
    env = dict(os.environ, PYTHONDONTWRITEBYTECODE='1', PYTHONHASHSEED='0')

    def one(t):
        p = subprocess.run([sys.executable, os.path.join(HERE, 'fresh.py')], input=json.dumps(dict(blt=t[0], opts=t[1], lowprec=t[2])),
                           capture_output=True, text=True, timeout=300, env=env)
        if p.returncode != 0:
            raise RuntimeError('fresh child failed: ' + p.stderr[-500:])
        return json.loads(p.stdout.strip().splitlines()[-1])
    with ThreadPoolExecutor(max_workers=workers) as ex:
        return list(ex.map(one, targets))


def run_history(history):
    "construct, count and render each election of the history in turn (as the package's drivers do)"
    for blt, opts, lp in history:
        T = drive.run_count(blt, opts, lowprec=lp, keepE=True, want_ballots=False)
        E = T.get('_E')
        if E is not None and T['outcome'] == 'ok':
            E.report()
            E.dump()
            E.json()
