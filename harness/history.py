"""
C20: a count is independent of whatever was counted before it in the process.
Histories of elections are run in THIS process; the reference for the election under test comes
from a fresh interpreter (harness/fresh.py, one child per target).  No top-level driver code.
"""
import sys, os, json, subprocess, itertools
from concurrent.futures import ThreadPoolExecutor
import drive, fresh

HERE = os.path.dirname(os.path.abspath(__file__))

# every arithmetic class / display branch: fixed d<p, d=p; integer; guarded d<=p, d>p, g=0; rational d; statutory
HISTORY_CONFIGS = [
    ({'rule': 'wigm', 'arithmetic': 'fixed', 'precision': 4}, None),
    ({'rule': 'wigm', 'arithmetic': 'fixed', 'precision': 6, 'display': 2}, None),
    ({'rule': 'wigm', 'arithmetic': 'integer'}, None),
    ({'rule': 'wigm'}, None),
    ({'rule': 'wigm', 'arithmetic': 'guarded', 'precision': 4, 'guard': 0}, None),
    ({'rule': 'wigm', 'arithmetic': 'guarded', 'precision': 3, 'guard': 3, 'display': 5}, None),
    ({'rule': 'wigm', 'arithmetic': 'guarded', 'precision': 5, 'guard': 2, 'display': 2}, None),
    ({'rule': 'meek', 'arithmetic': 'rational', 'omega': 3}, None),
    ({'rule': 'meek', 'arithmetic': 'rational', 'omega': 3, 'display': 4}, None),
    ({'rule': 'meek', 'arithmetic': 'fixed', 'precision': 5}, None),
    ({'rule': 'meek-prf'}, None),
    ({'rule': 'qpq'}, None),
    ({'rule': 'scotland'}, None),
    ({'rule': 'mpls'}, None),
    ({'rule': 'warren', 'arithmetic': 'guarded', 'precision': 6, 'guard': 3, 'display': 8}, None),
    ({'rule': 'cfer'}, None),
    ({'rule': 'wigm', 'arithmetic': 'rational'}, None),
    ({'rule': 'wigm', 'arithmetic': 'rational', 'display': 3}, None),
    ({'rule': 'wigm', 'arithmetic': 'fixed', 'precision': 2, 'display': 0}, None),
]
# elections under test: natively encodable, so that TLC can also compare the two histories action by action
TARGET_CONFIGS = [
    ({'rule': 'wigm', 'arithmetic': 'fixed', 'precision': 4}, None),
    ({'rule': 'wigm', 'arithmetic': 'fixed', 'precision': 5, 'display': 2}, None),
    ({'rule': 'wigm', 'arithmetic': 'integer'}, None),
    ({'rule': 'wigm', 'arithmetic': 'guarded', 'precision': 4, 'guard': 0}, None),
    ({'rule': 'wigm', 'arithmetic': 'guarded', 'precision': 3, 'guard': 3, 'display': 5}, None),
    ({'rule': 'wigm', 'arithmetic': 'guarded', 'precision': 4, 'guard': 2, 'display': 2}, None),
    ({'rule': 'wigm', 'arithmetic': 'guarded', 'precision': 3, 'guard': 2}, None),
    ({'rule': 'meek', 'arithmetic': 'fixed', 'precision': 4}, None),
    ({'rule': 'meek', 'arithmetic': 'guarded', 'precision': 3, 'guard': 2, 'display': 4}, None),
    ({'rule': 'warren', 'arithmetic': 'fixed', 'precision': 3}, None),
    ({'rule': 'scotland'}, None),
    ({'rule': 'mpls'}, None),
    ({'rule': 'cfer'}, None),
    ({'rule': 'wigm-prf-batch'}, None),
    ({'rule': 'wigm', 'arithmetic': 'rational'}, None),
    ({'rule': 'wigm', 'arithmetic': 'rational', 'display': 3}, None),
    ({'rule': 'meek-prf'}, (4, None, 2)),
    ({'rule': 'qpq'}, (3, 2, None)),
]
EQ_BLT = '4 2 [tie 2 4 1 3] 3 1=2 3 0 2 2=3=4 1 0 2 3 0 1 4=1 2 0 2 1 0 1 2 4 0 0 "c1" "c2" "c3" "c4" "t"'
BLTS = ['4 2 [tie 3 1 2 4] 3 1 2 0 2 2 3 0 2 3 0 1 4 1 0 1 2 1 4 0 0 "c1" "c2" "c3" "c4" "t"',
        '3 1 2 1 0 2 2 1 0 1 3 2 0 0 "c1" "c2" "c3" "t"',
        '5 3 [tie 5 4 3 2 1] 4 1 2 3 0 3 2 1 0 2 3 4 0 2 4 5 1 0 1 5 0 1 1 0 0 "c1" "c2" "c3" "c4" "c5" "t"']


def fresh_reference(targets, workers=12):
    "targets: list of (blt, opts, lowprec) -> list of result dicts, each computed by its own interpreter"
    env = dict(os.environ, PYTHONDONTWRITEBYTECODE='1', PYTHONHASHSEED='0')

    def one(t):
        p = subprocess.run([sys.executable, os.path.join(HERE, 'fresh.py')], input=json.dumps(dict(blt=t[0], opts=t[1], lowprec=t[2])),
                           capture_output=True, text=True, timeout=300, env=env)
        if p.returncode != 0:
            raise RuntimeError('fresh child failed: ' + p.stderr[-500:])
        return json.loads(p.stdout.strip().splitlines()[-1])
    with ThreadPoolExecutor(max_workers=workers) as ex:
        return list(ex.map(one, targets))


def run_history(history):
    "construct, count and render each election of the history in turn (as the package's drivers do)"
    for blt, opts, lp in history:
        T = drive.run_count(blt, opts, lowprec=lp, keepE=True, want_ballots=False)
        E = T.get('_E')
        if E is not None and T['outcome'] == 'ok':
            E.report()
            E.dump()
            E.json()


# ----------------------------------------------------------------------------------------
#  binding of spec/ClassState.tla: replay exported histories of initialize() calls on the real classes
# ----------------------------------------------------------------------------------------
import re as _re
_CLS = _re.compile(r'^"CLSCASE (.*)"\s*$', _re.M)
UNSET, DIRTY, NOD = -1, -2, -9


def cls_cases(out):
    return [json.loads(m.group(1).replace('\\"', '"').replace('\\\\', '\\')) for m in _CLS.finditer(out)]


def _reset_classes():
    "put the three classes back into the state of a fresh interpreter (the attribute values captured at first import)"
    from droop.values.fixed import Fixed
    from droop.values.guarded import Guarded
    from droop.values.rational import Rational
    for cls, pristine in drive.PRISTINE_CLASS_STATE.items():
        for k in list(cls.__dict__):
            if k not in pristine:
                delattr(cls, k)
        for k, v in pristine.items():
            if k.startswith('__') and k.endswith('__'):
                continue
            if callable(v) or isinstance(v, (classmethod, staticmethod, property)) or hasattr(v, '__get__'):
                continue
            if cls.__dict__.get(k) is not v:
                setattr(cls, k, v)
    return Fixed, Guarded, Rational


def _exp10(x):
    if x is None:
        return UNSET
    e = len(str(x)) - 1
    return e if x == 10 ** e else -100 - (x % 97)


def _digits(fmt, which):
    if fmt is None:
        return UNSET
    m = _re.match(r'%d\.%0(\d+)d(?:_%0(\d+)d)?$', fmt)
    if not m:
        return -100
    return int(m.group(1)) if which == 0 else int(m.group(2) or 0)


def real_class_state():
    from droop.values.fixed import Fixed
    from droop.values.guarded import Guarded
    from droop.values.rational import Rational
    g = lambda cls, k: cls.__dict__.get(k)
    un = lambda v: UNSET if v is None else v
    F = dict(name=g(Fixed, 'name') or '', precision=un(g(Fixed, 'precision')), display=un(g(Fixed, 'display')),
             scale=_exp10(g(Fixed, '_Fixed__scale')), scaled=_exp10(g(Fixed, '_Fixed__scaled')), scaledd=_exp10(g(Fixed, '_Fixed__scaledd')),
             epsilon=un(getattr(g(Fixed, 'epsilon'), '_value', None)), dfmt=_digits(g(Fixed, '_Fixed__dfmt'), 0))
    geps = g(Guarded, '_Guarded__geps')
    G = dict(precision=un(g(Guarded, 'precision')), guard=un(g(Guarded, 'guard')), display=un(g(Guarded, 'display')),
             scalep=_exp10(g(Guarded, '_Guarded__scalep')), scaleg=_exp10(g(Guarded, '_Guarded__scaleg')), scale=_exp10(g(Guarded, '_Guarded__scale')),
             scaledd=_exp10(g(Guarded, '_Guarded__scaledd')), scaled=_exp10(g(Guarded, '_Guarded__scaled')), scaledg=_exp10(g(Guarded, '_Guarded__scaledg')),
             geps10=UNSET if geps is None else next((e for e in range(0, 30) if max(10 ** e // 2, 1) == geps), -100),
             maxDiff=un(g(Guarded, 'maxDiff')), minDiff=_exp10(g(Guarded, 'minDiff')) if g(Guarded, 'minDiff') is not None else UNSET,
             dfmtp=_digits(g(Guarded, '_Guarded__dfmt'), 0), dfmtg=_digits(g(Guarded, '_Guarded__dfmt'), 1),
             exact=1 if Guarded.exact else 0, quasi=1 if Guarded.quasi_exact else 0,
             epsilon=un(getattr(g(Guarded, 'epsilon'), '_value', None)))
    R = dict(dp=un(g(Rational, 'dp')), dps=_exp10(g(Rational, '_dps')))
    return dict(fixed=F, guarded=G, rational=R)


def replay_class_case(case):
    "run the history of initialize() calls on the real classes (with comparisons in between) and compare every attribute"
    import arith
    Fixed, Guarded, Rational = _reset_classes()
    for c in case['hist']:
        V = arith.setup(c['cls'], c['p'], c['g'], None if c['d'] == NOD else c['d'])
    # comparisons of an earlier guarded election dirty the statistics of the class; replay the history again so that every
    # initialize() runs on dirty statistics, as it does in a process that counted elections before
    for c in case['hist']:
        if c['cls'] == 'guarded' and Guarded.precision is not None:
            a, b = Guarded(1), Guarded(2)
            a < b
            a == Guarded(1)
        V = arith.setup(c['cls'], c['p'], c['g'], None if c['d'] == NOD else c['d'])
    real = real_class_state()
    diffs = []
    last = case['hist'][-1]['cls']
    for cls in ('fixed', 'guarded', 'rational'):
        for k, want in case['state'][cls].items():
            got = real[cls][k]
            if want == DIRTY or (cls == 'guarded' and k in ('maxDiff', 'minDiff') and cls != last):
                continue
            if got != want:
                diffs.append(('%s.%s' % (cls, k), want, got))
    _reset_classes()
    return diffs
