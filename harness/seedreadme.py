"""Regenerates seeded/README.md from the meta files."""
import json, os, glob
V = os.path.dirname(os.path.dirname(os.path.abspath(__file__)))
def main():
    rows = []
    for d in sorted(glob.glob(os.path.join(V, 'seeded', '*'))):
        m = os.path.join(d, 'meta.json')
        if not os.path.isfile(m):
            continue
        j = json.load(open(m))
        rows.append('| %s | %s | %s | %s | %s | %s |' % (os.path.basename(d), j.get('property', ''), j.get('file', ''), (j.get('needs', '') or '').replace('|', '/').replace('\n', ' ')[:160],
                                                    ' '.join(j.get('quick_checks_that_caught', [])), ' '.join(j.get('quick_checks_that_missed', []))))
    with open(os.path.join(V, 'seeded', 'README.md'), 'w') as f:
        f.write('# Seeded changes\n\nEach directory: `patch.diff` (apply with `git -C /repo apply`), `demo.py <checkout>` (exit 1 = property violated), `meta.json`.\n'
                'Columns "caught"/"missed" = quick checks run against the patched /repo when the entry was last recorded with `bin/seedtest`.\n\n'
                '| id | property | file | needs | caught by | missed by |\n|---|---|---|---|---|---|\n' + '\n'.join(rows) + '\n')
if __name__ == '__main__':
    main()
