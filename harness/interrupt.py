"""
C19: inject KeyboardInterrupt at the k-th executed line of package code during Election.count()
(sys.settrace from the harness; no repository hook), then render as Droop.main does.
No top-level driver code.
"""
import sys, io, json, contextlib
import drive
from drive import ElectionProfile, Election, MARKER, REPO

PKG = REPO.rstrip('/') + '/droop'


def _mk(blt, opts, lp):
    patch = drive.lowprec_patch(opts['rule'], *lp) if lp else drive.Patch([])
    with patch:
        return Election(ElectionProfile(data=blt), dict(opts))


LAST_LOCS = []      # code location (file, line) of every line event of the last count_events run


def count_events(blt, opts, lp=None):
    n = [0]
    del LAST_LOCS[:]

    def tr(frame, event, arg):
        if frame.f_code.co_filename.startswith(PKG):
            if event == 'line':
                n[0] += 1
                LAST_LOCS.append((frame.f_code.co_filename, frame.f_lineno))
            return tr
        return None
    E = _mk(blt, opts, lp)
    sys.settrace(tr)
    try:
        with contextlib.redirect_stdout(io.StringIO()):
            E.count()
    finally:
        sys.settrace(None)
    return n[0], E


def interrupted(blt, opts, k, lp=None):
    n = [0]

    def tr(frame, event, arg):
        if frame.f_code.co_filename.startswith(PKG):
            if event == 'line':
                n[0] += 1
                if n[0] == k:
                    raise KeyboardInterrupt()
            return tr
        return None
    E = _mk(blt, opts, lp)
    intr = False
    sys.settrace(tr)
    try:
        with contextlib.redirect_stdout(io.StringIO()):
            E.count()
    except KeyboardInterrupt:
        intr = True
    finally:
        sys.settrace(None)
    if not intr and n[0] >= k:
        intr = 'lost'           # the interrupt was delivered at event k, yet count() ran on to its end
    return E, intr


def crash_record(blt, opts, k, full, fulljson, lp=None):
    "one crash point: interrupt at line event k, then report(True), dump(True), json(True)"
    E, intr = interrupted(blt, opts, k, lp)
    if not intr:
        return None
    X = dict(rule=opts['rule'], k=k, nfull=len(full), filled=bool(E.erecord.filled), lost=(intr == 'lost'))
    outs = {}
    for f in ('report', 'dump', 'json'):
        try:
            outs[f] = getattr(E, f)(True)
            X[f + '_ok'] = True
        except Exception as e:
            X[f + '_ok'] = False
            X[f + '_exc'] = type(e).__name__ + ': ' + str(e)[:60]
    acts = [(a['tag'], a['msg']) for a in E.record()['actions']]
    nm = sum(1 for a in acts if a == ('log', MARKER))
    X['marker_count'] = nm
    X['marker_last'] = bool(acts) and acts[-1] == ('log', MARKER)
    pre = [a for a in acts if a != ('log', MARKER)]
    X['nacts'] = len(pre)
    X['prefix_ok'] = pre == full[:len(pre)]
    X['banner'] = X['report_ok'] and ('terminated prematurely' in outs['report'])
    X['json_prefix_ok'] = True
    X['json_actions'] = 0
    if X['json_ok']:
        try:
            ja = json.loads(outs['json'])['actions']
            X['json_actions'] = len(ja)
            X['json_prefix_ok'] = ja[:-1] == fulljson[:len(ja) - 1] and ja[-1].get('msg') == MARKER
        except Exception:
            X['json_ok'] = False
    X['dump_rows'] = len(outs['dump'].splitlines()) if X['dump_ok'] else 0
    return X


def full_run(blt, opts, lp=None):
    K, E0 = count_events(blt, opts, lp)
    full = [(a['tag'], a['msg']) for a in E0.record()['actions']]
    fulljson = json.loads(E0.json())['actions']
    return K, full, fulljson


# ----------------------------------------------------------------------------------------
#  the same through the command-line driver: Droop.main(options) catches KeyboardInterrupt itself
# ----------------------------------------------------------------------------------------
def main_interrupted(path, opts, k, with_report=True):
    "interrupt at the k-th line event executed under Election.count() while running Droop.main; returns (output or None, exception name)"
    import importlib
    Droop = importlib.import_module('Droop')
    n = [0]
    depth = [0]

    def tr(frame, event, arg):
        co = frame.f_code
        if co.co_filename.startswith(PKG):
            if co.co_name == 'count' and co.co_filename.endswith('election.py'):
                if event == 'call':
                    depth[0] += 1
                elif event == 'return':
                    depth[0] -= 1
            if event == 'line' and depth[0] > 0:
                n[0] += 1
                if n[0] == k:
                    raise KeyboardInterrupt()
            return tr
        return tr if co.co_filename.endswith('Droop.py') else None
    o = dict(opts)
    o.update(path=path, dump=True, json=True)
    if not with_report:
        o['report'] = False
    out, exc = None, ''
    import os, tempfile, shutil
    cwd = os.getcwd()
    tmpd = tempfile.mkdtemp(prefix='vmain-')      # profile=<n> makes the driver write profile.out into the current directory
    os.chdir(tmpd)
    sys.settrace(tr)
    try:
        with contextlib.redirect_stdout(io.StringIO()):
            out = Droop.main(o)
    except BaseException as e:
        exc = type(e).__name__ + ': ' + str(e)[:60]
    finally:
        sys.settrace(None)
        os.chdir(cwd)
        shutil.rmtree(tmpd, ignore_errors=True)
    return out, exc, n[0]


def main_record(path, blt, opts, k, full, fulljson, with_report=True):
    out, exc, seen = main_interrupted(path, opts, k, with_report)
    if seen < k:
        return None                      # the count finished before the k-th event
    X = dict(rule=opts['rule'], k=k, nfull=len(full), filled=True, lost=False, report_ok=out is not None, dump_ok=out is not None, json_ok=out is not None,
             report_exc=exc, dump_exc='', json_exc='', marker_last=False, marker_count=0, nacts=0, prefix_ok=False, banner=False,
             json_prefix_ok=False, json_actions=0, dump_rows=0)
    if out is None:
        return X
    lines = out.split('\n')
    try:
        di = next(i for i, l in enumerate(lines) if l.startswith('R\tAction\tQuota'))
        ji = next(i for i, l in enumerate(lines) if l == '{' and i > di)
    except StopIteration:
        X['dump_ok'] = X['json_ok'] = False
        return X
    rep, dump, js = '\n'.join(lines[:di]), [l for l in lines[di:ji] if l], '\n'.join(lines[ji:])
    X['banner'] = ('terminated prematurely' in rep) if with_report else True     # no report requested: nothing to mark there
    X['dump_rows'] = len(dump)
    try:
        ja = json.loads(js)['actions']
    except Exception:
        X['json_ok'] = False
        return X
    acts = [(a['tag'], a['msg']) for a in ja]
    X['marker_count'] = sum(1 for a in acts if a == ('log', MARKER))
    X['marker_last'] = bool(acts) and acts[-1] == ('log', MARKER)
    pre = [a for a in acts if a != ('log', MARKER)]
    X['nacts'] = len(pre)
    X['prefix_ok'] = pre == full[:len(pre)]
    X['json_actions'] = len(ja)
    X['json_prefix_ok'] = ja[:-1] == fulljson[:len(ja) - 1]
    return X


def per_line_events(maxper=2):
    "for every distinct executed line of the last full_run: the indices (1-based) of its first and last (and a middle) occurrence"
    occ = {}
    for i, loc in enumerate(LAST_LOCS, 1):
        occ.setdefault(loc, []).append(i)
    ks = set()
    for loc, L in occ.items():
        ks.add(L[0])
        if maxper >= 2:
            ks.add(L[-1])
        if maxper >= 3:
            ks.add(L[len(L) // 2])
    return ks, len(occ)
