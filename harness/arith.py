"""
C12 / C13(a) / C14: calls of the real arithmetic classes recorded for TraceArith.tla.
No top-level driver code.
"""
import re, random, itertools
from fractions import Fraction
import drive
from droop.options import Options
from droop.values.fixed import Fixed
from droop.values.guarded import Guarded
from droop.values.rational import Rational

LIM = 2 ** 31 - 1


def setup(cls, p=0, g=0, d=None, as_integer=None):
    o = dict(arithmetic=cls)
    if cls in ('fixed', 'guarded'):
        o['precision'] = p
    if as_integer is not None:
        # `integer' is the zero-place case whatever precision accompanies it
        o = dict(arithmetic='integer', precision=as_integer)
    if cls == 'guarded':
        o['guard'] = g
    if d is not None:
        o['display'] = d
    opts = Options(o)
    if cls == 'fixed':
        Fixed.initialize(opts)
        return Fixed
    if cls == 'guarded':
        Guarded.initialize(opts)
        return Guarded
    Rational.initialize(opts)
    return Rational


_STR = re.compile(r'^(-?)(\d+)(?:\.(\d+))?(?:_(\d+))?$')


def parse_str(s):
    m = _STR.match(s)
    if not m:
        return None
    return dict(neg=bool(m.group(1)), ip=int(m.group(2)), fr=int(m.group(3) or 0), fd=len(m.group(3) or ''),
                gfr=int(m.group(4) or 0), gfd=len(m.group(4) or ''))


def d_eff(cls, p, g, d):
    if cls == 'fixed':
        dd = p if d is None else d
        return dd if 0 <= dd <= p else p
    if cls == 'guarded':
        dd = p if d is None else d
        return min(dd, p + g)
    return 12 if d is None else d


def fits(*xs):
    return all(abs(x) < LIM for x in xs)


def scaled_calls(cls, p, g, d, operands, rng, ints, npairs=300, as_integer=None):
    "calls on Fixed / Guarded with the given scaled operand values"
    V = setup(cls, p, g, d, as_integer=as_integer)
    S = 10 ** (p + g)
    geps = max(10 ** g // 2, 1) if cls == 'guarded' else 1
    base = dict(cls=cls, p=p, g=g, d=-1 if d is None else d, dEff=d_eff(cls, p, g, d), S=S, geps=geps, rnd='op', a=0, b=0, c=0, r=0, oor=False,
                same_cls=True, twin_same=True, flags=[False] * 6, unchanged=True, str=dict(neg=False, ip=0, fr=0, fd=0, gfr=0, gfd=0))
    mk = lambda x: V(x, True)
    out = []
    # C13: guarded with zero guard digits is indistinguishable from fixed of the same precision -- printing included
    twin = setup('fixed', p, 0, d) if cls == 'guarded' and g == 0 else None

    def rec(op, rnd, a, b, c, res, flags=None):
        r = dict(base)
        r.update(op=op, rnd=rnd, a=a, b=b, c=c)
        if callable(flags):
            try:
                flags = flags()
            except Exception:
                flags = [None] * 6
        if callable(res):
            try:
                res = res()
            except Exception:
                res = None
        if flags is not None:
            r['flags'] = [bool(f) for f in flags]
            r['same_cls'] = all(isinstance(f, bool) for f in flags)
        else:
            r['same_cls'] = type(res) is V
            r['r'] = getattr(res, '_value', 0) if r['same_cls'] else 0
            # a result so large that the relational law cannot even be evaluated in 32 bits is wrong by itself
            # (for a correct result |r|*divisor is about |a*b| or |a*S|, which fits by construction of the operands)
            div = {'mul': S, 'div': abs(b) if isinstance(b, int) else 1, 'muldiv': abs(c) if isinstance(c, int) else 1, 'floordivint': abs(b) if isinstance(b, int) else 1}.get(op, 1)
            big = not isinstance(r['r'], int) or (abs(r['r']) + 1) * max(div, 1) >= LIM
            if big:
                r['r'] = 0
                r['oor'] = True
        out.append(r)
    for a in operands:
        A = mk(a)
        rec('neg', 'op', a, 0, 0, lambda: -A)
        rec('pos', 'op', a, 0, 0, lambda: +A)
        rec('abs', 'op', a, 0, 0, lambda: abs(A))
        try:
            s0 = str(A)
        except Exception:
            s0 = 'EXC'
        ps = parse_str(s0)
        r = dict(base)
        r.update(op='str', a=a, unchanged=(A._value == a), same_cls=True)
        r['str'] = ps or dict(neg=False, ip=-1, fr=0, fd=99, gfr=0, gfd=0)
        if twin is not None:
            try:
                r['twin_same'] = (str(twin(a, True)) == s0)
            except Exception:
                r['twin_same'] = False
        out.append(r)
        for k in ints:
            if fits(a * k, a + k * S):
                rec('mulint', 'op', a, k, 0, lambda: A * k)
                rec('addint', 'op', a, k, 0, lambda: A + k)
                if k != 0:
                    rec('floordivint', 'op', a, k, 0, lambda: A // k)
    for k in ints:
        if fits(k * S):
            rec('fromint', 'op', k, 0, 0, lambda: V(k))
    pairs_ = [(a, b) for a in operands for b in operands]
    rng.shuffle(pairs_)
    for a, b in pairs_[:npairs]:
        A, B = mk(a), mk(b)
        rec('add', 'op', a, b, 0, lambda: A + B)
        rec('sub', 'op', a, b, 0, lambda: A - B)
        rec('cmp', 'op', a, b, 0, None, flags=lambda: [A < B, A <= B, A == B, A != B, A > B, A >= B])
        if fits(a * b, a * S, 4 * b):
            rec('mul', 'op', a, b, 0, lambda: A * B)
            for rnd in ('down', 'up'):
                rec('mul', rnd, a, b, 0, lambda: V.mul(A, B, round=rnd))
            if b != 0:
                rec('div', 'op', a, b, 0, lambda: A / B)
                rec('div', 'op', a, b, 0, lambda: A // B)
                for rnd in ('down', 'up'):
                    rec('div', rnd, a, b, 0, lambda: V.div(A, B, round=rnd))
            c = rng.choice(operands)
            if c != 0 and fits(a * b, 4 * c):
                C = mk(c)
                for rnd in ('down', 'up'):
                    rec('muldiv', rnd, a, b, c, lambda: V.muldiv(A, B, C, round=rnd))
            c2 = rng.choice(operands)
            rec('min', 'op', a, b, c2, lambda: V.min([A, B, mk(c2)]))
    # the minimum is the least stored value, whatever the order of the list and however close the values are
    for x in operands[::max(1, len(operands) // 12)]:
        for t in ((x, x - 1, x - 2), (x, x + 1, x - 1), (x - 1, x, x - 2), (x, x - (geps - 1 if geps > 1 else 1), x + 1)):
            rec('min', 'op', t[0], t[1], t[2], (lambda t=t: V.min([mk(t[0]), mk(t[1]), mk(t[2])])))
    return out


def rational_calls(d, operands, rng, tier='quick'):
    V = setup('rational', d=d)
    base = dict(cls='rational', p=0, g=0, d=d, dEff=d, S=1, geps=1, rnd='op', a=[0, 1], b=[0, 1], c=[0, 1], r=[0, 1], oor=False,
                same_cls=True, twin_same=True, flags=[False] * 6, unchanged=True, str=dict(neg=False, ip=0, fr=0, fd=0, gfr=0, gfd=0))
    pr = lambda x: [x.numerator, x.denominator]
    out = []

    def rec(op, a, b, c, res, flags=None):
        r = dict(base)
        r.update(op=op, a=pr(a), b=pr(b), c=pr(c))
        if flags is not None:
            r['flags'] = flags
        else:
            r['same_cls'] = type(res) is V
            r['r'] = pr(res) if isinstance(res, Fraction) else [0, 1]
        out.append(r)
    Z = V(0)
    for a in operands:
        A = V(a.numerator, a.denominator)
        rec('neg', A, Z, Z, -A)
        rec('abs', A, Z, Z, abs(A))
        if abs(a.numerator) * 10 ** max(d, 1) * 4 < LIM // max(a.denominator, 1):
            s0 = str(A)
            r = dict(base)
            r.update(op='str', a=pr(A), unchanged=(A == a))
            r['str'] = parse_str(s0) or dict(neg=False, ip=-1, fr=0, fd=99, gfr=0, gfd=0)
            out.append(r)
    ps = [(a, b) for a in operands for b in operands]
    rng.shuffle(ps)
    for a, b in ps[:(200 if tier == 'quick' else 1500)]:
        A, B = V(a.numerator, a.denominator), V(b.numerator, b.denominator)
        rec('add', A, B, Z, A + B)
        rec('sub', A, B, Z, A - B)
        rec('mul', A, B, Z, A * B)
        rec('mul', A, B, Z, V.mul(A, B, round='up'))
        rec('cmp', A, B, Z, None, flags=[A < B, A <= B, A == B, A != B, A > B, A >= B])
        if b != 0:
            rec('div', A, B, Z, A / B)
            rec('div', A, B, Z, V.div(A, B, round='down'))
        c = rng.choice(operands)
        C = V(c.numerator, c.denominator)
        if c != 0:
            rec('muldiv', A, B, C, V.muldiv(A, B, C, round='up'))
        rec('min', A, B, C, V.min([A, B, C]))
    # a plain int or Fraction on the LEFT of an operator (reflected methods): the result is exact and again a Rational
    for a in operands[:8]:
        A = V(a.numerator, a.denominator)
        for k in (0, 1, 2, -3, Fraction(5, 2)):
            K = Fraction(k)
            rec('add', K, A, Z, k + A)
            rec('sub', K, A, Z, k - A)
            rec('mul', K, A, Z, k * A)
            if a != 0:
                try:
                    rec('div', K, A, Z, k / A)
                except Exception:
                    rec('div', K, A, Z, None)
    return out


def operand_grid(S, geps, rng, n_random=12):
    base = {0, 1, -1, 2, -2, 3, 7, -7, S, -S, S + 1, S - 1, -S - 1, -S + 1, 2 * S, 3 * S + 1, S // 2, S // 3, -(S // 3), 5 * S // 2}
    for x in list(base):
        for dlt in (geps - 1, geps, geps + 1):
            base.add(x + dlt)
            base.add(x - dlt)
    for _ in range(n_random):
        base.add(rng.randint(-40000, 40000))
        base.add(rng.randint(-300, 300))
    return sorted(x for x in base if abs(x) <= 45000)


def limbs(n):
    "signed little-endian base-10^4 limbs (spec/BigNum.tla)"
    neg = n < 0
    n = abs(n)
    mag = []
    while n:
        mag.append(n % 10000)
        n //= 10000
    return dict(neg=neg and bool(mag), mag=mag)


def big_calls(rng, tier):
    "the same operators on operands of any sign up to 10^40 (C12/C14 'huge magnitudes'), limb-encoded"
    out = []
    cfgs = [('fixed', 0, 0, None), ('fixed', 4, 0, 2), ('fixed', 9, 0, None), ('fixed', 18, 0, 6), ('guarded', 9, 9, None), ('guarded', 18, 9, 20), ('guarded', 4, 0, None)]
    n = 25 if tier == 'quick' else 300
    for cls, p, g, d in cfgs:
        V = setup(cls, p, g, d)
        S = 10 ** (p + g)
        geps = max(10 ** g // 2, 1) if cls == 'guarded' else 1
        de = d_eff(cls, p, g, d)
        base = dict(big=True, oor=False, cls=cls, p=p, g=g, d=-1 if d is None else d, dEff=de, Sb=limbs(S), gepsb=limbs(geps), rnd='op', a=limbs(0), b=limbs(0), c=limbs(0),
                    r=limbs(0), same_cls=True, flags=[False] * 6, unchanged=True, pu=limbs(0), Db=limbs(1), digits_ok=True)
        mk = lambda x: V(x, True)

        def rec(op, rnd, x, y, z, res, flags=None):
            r = dict(base)
            r.update(op=op, rnd=rnd, a=limbs(x), b=limbs(y), c=limbs(z))
            if flags is not None:
                r['flags'] = flags
            else:
                r['same_cls'] = type(res) is V
                r['r'] = limbs(getattr(res, '_value', 0))
            out.append(r)

        def operand():
            k = rng.choice([1, 3, 9, 10, 18, 27, 40])
            x = rng.randint(0, 10 ** k)
            if rng.random() < 0.3:
                x = rng.choice([S, S - 1, S + 1, 10 ** k, 10 ** k - 1, 2 ** 31, 2 ** 63 + 1])
            return -x if rng.random() < 0.4 else x
        for _ in range(n):
            x, y, z = operand(), operand(), operand()
            if rng.random() < 0.2:
                y = x + rng.choice([-geps - 1, -geps, -geps + 1, 0, geps - 1, geps, geps + 1])
            A, B = mk(x), mk(y)
            rec('add', 'op', x, y, 0, A + B)
            rec('sub', 'op', x, y, 0, A - B)
            rec('neg', 'op', x, 0, 0, -A)
            rec('abs', 'op', x, 0, 0, abs(A))
            k = rng.choice([0, 1, -1, 7, 10 ** 9, -(10 ** 12)])
            rec('mulint', 'op', x, k, 0, A * k)
            if k:
                rec('floordivint', 'op', x, k, 0, A // k)
            rec('cmp', 'op', x, y, 0, None, flags=[A < B, A <= B, A == B, A != B, A > B, A >= B])
            rec('mul', 'op', x, y, 0, A * B)
            for rnd in ('down', 'up'):
                rec('mul', rnd, x, y, 0, V.mul(A, B, round=rnd))
            if y:
                rec('div', 'op', x, y, 0, A / B)
                for rnd in ('down', 'up'):
                    rec('div', rnd, x, y, 0, V.div(A, B, round=rnd))
            if z:
                for rnd in ('down', 'up'):
                    rec('muldiv', rnd, x, y, z, V.muldiv(A, B, mk(z), round=rnd))
            # printing
            s0 = str(A)
            ps = parse_str(s0)
            r = dict(base)
            r.update(op='str', a=limbs(x), unchanged=(A._value == x))
            if ps is None:
                r['digits_ok'] = False
            else:
                plain = (p + g == 0)
                zero = (de == 0 and not plain)
                dd = ps['fd'] + ps['gfd']
                if zero:
                    units, D, ok = ps['ip'], 1, (dd == 1 and ps['fr'] == 0)
                elif plain:
                    units, D, ok = ps['ip'], 1, dd == 0
                else:
                    units = (ps['ip'] * 10 ** ps['fd'] + ps['fr']) * 10 ** ps['gfd'] + ps['gfr']
                    D = 10 ** dd
                    ok = dd == de and ((cls == 'guarded' and de > p and ps['fd'] == p and ps['gfd'] == de - p) or (not (cls == 'guarded' and de > p) and ps['gfd'] == 0))
                r['pu'] = limbs(-units if ps['neg'] else units)
                r['Db'] = limbs(D)
                r['digits_ok'] = bool(ok and not (ps['neg'] and units == 0 and False))
            out.append(r)
    # huge and long rationals: the printed form is still the exact value rounded half-up
    from fractions import Fraction
    for d in (0, 3, 12, 18):
        V = setup('rational', d=d)
        for _ in range(12 if tier == 'quick' else 150):
            num = rng.choice([rng.randint(0, 10 ** rng.choice([5, 17, 30])), 10 ** 17 + 35, 3 * 10 ** 17 // 2 * 2 + 33])
            den = rng.choice([1, 2, 3, 7, 10 ** 9 + 7, 2 ** 40])
            if rng.random() < 0.3:
                num, den = den * rng.randint(1, 10 ** 6) - 1, den * 10 ** rng.choice([3, 12, 18])     # a hair below an integer
            if rng.random() < 0.2:
                num = -num
            x = V(num, den)
            try:
                s0 = str(x)
            except Exception:
                s0 = 'EXC'
            ps = parse_str(s0)
            r = dict(big=True, oor=False, cls='rational', p=0, g=0, d=d, dEff=d, Sb=limbs(1), gepsb=limbs(1), rnd='op', op='strq', a=limbs(x.numerator), ad=limbs(x.denominator),
                     b=limbs(0), c=limbs(0), r=limbs(0), same_cls=True, flags=[False] * 6, unchanged=(x == Fraction(num, den)), pu=limbs(0), Db=limbs(1), digits_ok=False)
            if ps is not None:
                if d == 0:
                    units, D, ok = ps['ip'], 1, (ps['fd'] == 1 and ps['fr'] == 0 and ps['gfd'] == 0)
                else:
                    units, D, ok = ps['ip'] * 10 ** ps['fd'] + ps['fr'], 10 ** ps['fd'], (ps['fd'] == d and ps['gfd'] == 0)
                r['pu'] = limbs(-units if ps['neg'] else units)
                r['Db'] = limbs(D)
                r['digits_ok'] = bool(ok)
            out.append(r)
    return out


def all_calls(rng, tier):
    calls = []
    ints = [0, 1, -1, 2, 3, -4, 7, 10]
    cfgs = []
    for p in (0, 1, 2, 3, 4):
        for d in (None, 0, 1, p, p + 2):
            cfgs.append(('fixed', p, 0, d))
    for (p, g) in ((2, 0), (2, 1), (1, 1), (3, 1), (2, 2), (0, 2), (3, 0)):
        for d in (None, 0, 1, p, p + 1, p + g, p + g + 3):
            cfgs.append(('guarded', p, g, d))
    if tier == 'quick':
        must = [('fixed', 3, 0, 5), ('guarded', 0, 2, 1), ('guarded', 2, 0, 1), ('guarded', 3, 0, 0), ('fixed', 3, 0, 1), ('guarded', 2, 2, 1), ('guarded', 3, 1, 4)]
        rng.shuffle(cfgs)
        cfgs = must + [c for c in cfgs if c not in must][:11]
    for cls, p, g, d in cfgs:
        if cls == 'guarded' and p == 0 and d == 0:
            continue
        S = 10 ** (p + g)
        geps = max(10 ** g // 2, 1) if cls == 'guarded' else 1
        ops = operand_grid(S, geps, rng, 12 if tier == 'quick' else 40)
        # printing: every display rounding boundary, approached from both sides by one unit, the tolerance, one guard unit
        de = d_eff(cls, p, g, d)
        if de < p + g:
            U = 10 ** (p + g - de)
            G = 10 ** g if cls == 'guarded' else 1
            extra = set()
            for k in (0, 1, -1, 2, -3, 12, -12, 9, 99):
                for dl in (0, 1, -1, geps, -geps, geps - 1, 1 - geps, G, -G, G - 1, 1 - G):
                    extra.add(k * U + U // 2 + dl)
                    extra.add(k * U + dl)
            ops = sorted(set(ops) | set(x for x in extra if abs(x) <= 45000))
        calls += scaled_calls(cls, p, g, d, ops, rng, ints, npairs=(220 if tier == 'quick' else 1500))
    # arithmetic=integer accompanied by a precision option: still zero places
    calls += scaled_calls('fixed', 0, 0, None, operand_grid(1, 1, rng, 8), rng, ints, npairs=120, as_integer=3)
    fr = [Fraction(n, dn) for n in (0, 1, -1, 2, 3, -5, 7, 22, -31, 100) for dn in (1, 2, 3, 7, 10, 13)]
    for d in ((0, 3, 5) if tier == 'quick' else (0, 1, 3, 5, 6)):
        calls += rational_calls(d, fr, rng, tier)
    for c in calls:
        c['big'] = False
    calls += big_calls(rng, tier)
    for i, c in enumerate(calls, 1):
        c['id'] = i
    return calls
