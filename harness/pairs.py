"""
Pair generators for the metamorphic properties (C07e, C10, C11, C13b/c, C17).
Each returns a list of pair dicts ready for TracePairs.tla, plus bookkeeping.
No top-level driver code.
"""
import re, random, collections
from fractions import Fraction
import drive, gen


def native(T):
    N = drive.to_native(T)
    if N is None:
        return None
    N['fam'] = drive.fam(T['rule'])
    return N


def renders(T):
    E = T.get('_E')
    try:
        return E.report(), E.dump(), E.json()
    except Exception as e:      # rendering failure is C18/C19's business; here: not comparable
        return None, None, None


def strip_stats(rep):
    return '\n'.join(l for l in rep.split('\n') if not (l.startswith('\tmaxDiff:') or l.startswith('\tminDiff:')))


def strip_optlines(rep):
    return '\n'.join(l for l in rep.split('\n') if not (l.startswith('\tUnused options:') or l.startswith('\tOverridden options:')))


def run2(blt1, opts1, lp1, blt2, opts2, lp2):
    A = drive.run_count(blt1, opts1, lowprec=lp1, keepE=True)
    B = drive.run_count(blt2, opts2, lowprec=lp2, keepE=True)
    return A, B


def base_obs():
    return dict(same_report=True, same_dump=True, same_json=True, only_stats_differ=False, quiet_stats=True,
                same_report_body=True, same_twice=True)


def mkpair(rel, A, B, nmap=None, obs=None, unit=0):
    a, b = native(A), native(B)
    if a is None or b is None:
        return None
    a['id'] = 0
    b['id'] = 0
    o = base_obs()
    o.update(obs or {})
    return dict(rel=rel, a=a, b=b, map=nmap if nmap is not None else list(range(1, a['nc'] + 1)), obs=o, unit=unit)


def text_obs(A, B, body=False):
    ra, da, ja = renders(A)
    rb, db, jb = renders(B)
    if ra is None or rb is None:
        return dict(same_report=False, same_dump=False)
    o = dict(same_report=(ra == rb), same_dump=(da == db))
    o['only_stats_differ'] = (ra != rb) and strip_stats(ra) == strip_stats(rb)
    if body:
        o['same_report_body'] = strip_optlines(ra) == strip_optlines(rb)
    return o


# ---------------------------------------------------------------------------------------- C10
def present(rng, pr, nicks=False):
    "another presentation of the same election: permuted / split / merged lines, layout, comments, nicknames"
    lines2 = []
    for m, rk in pr['lines']:
        while m > 1 and rng.random() < 0.5:
            k = rng.randint(1, m - 1)
            lines2.append((k, rk))
            m -= k
        lines2.append((m, rk))
    rng.shuffle(lines2)
    if rng.random() < 0.5:
        d = collections.OrderedDict()
        for m, rk in lines2:
            d[tuple(rk)] = d.get(tuple(rk), 0) + m
        lines2 = [(m, list(rk)) for rk, m in d.items()]
    nc = pr['nc']
    # nicknames: anything that is not all digits is a nickname -- also look-alikes that int() would take for a number
    style = rng.choice(['alpha', 'alpha', 'under', 'plus'])
    nick = None
    if nicks:
        nick = {'alpha': ['n%s' % chr(96 + c) for c in range(1, nc + 1)],
                'under': ['0_%d' % (nc + 1 - c) for c in range(1, nc + 1)],
                'plus': ['+%d' % (c % nc + 1) for c in range(1, nc + 1)]}[style]

    def ref(c):
        return nick[c - 1] if nick and rng.random() < 0.7 else str(c)
    sep = lambda: rng.choice([' ', '\n', '  ', '\t', ' /* c */ ', ' /* a /* nested */ b */ ', '\n# comment line\n',
                              ' /* ward 7, batch #1 of 2 */ ', ' /* "quoted 0 [tie] */ ', ' /* # */ ', '\n# "x /* not a block comment\n'])
    s = '%d%s%d' % (nc, sep(), pr['seats'])
    if nick:
        s += sep() + '[nick %s]' % ' '.join(nick)
    s += sep() + '[tie %s]' % ' '.join(ref(c) for c in pr['tie'])
    if pr['withdrawn']:
        if rng.random() < 0.5:
            s += sep() + '[withdrawn %s]' % ' '.join(ref(c) for c in pr['withdrawn'])
        else:
            s += sep() + ' '.join('-%d' % c for c in pr['withdrawn'])
    if pr['undeclared']:
        s += sep() + '[undeclared %s]' % ' '.join(ref(c) for c in pr['undeclared'])
    eol = lambda: rng.choice(['\n', '\n', '\r\n', '\r', '\x0c', '\x85', '\u2028'])    # everything str.splitlines() treats as a line end
    use_ids = (not pr.get('eqlines')) and sum(m for m, _ in lines2) <= 40 and rng.random() < 0.3
    if use_ids:
        # one paper per line, each with a ballot id; a few blank papers and papers for withdrawn candidates only do not change the election
        papers = [r for m, r in lines2 for _ in range(m)]
        rng.shuffle(papers)
        extra = [[]] * rng.randint(0, 2) + ([[rng.choice(pr['withdrawn'])]] if pr['withdrawn'] and rng.random() < 0.5 else [])
        papers = papers + extra
        rng.shuffle(papers)
        for k, r in enumerate(papers):
            s += sep() + '(%s%d) %s 0' % (rng.choice(['b', 'id ', 'x-']), k, ' '.join(ref(c) for c in r))
    else:
        for m, r in lines2:
            s += sep() + '%d %s 0' % (m, ' '.join(ref(c) for c in r))
            if rng.random() < 0.2:
                s += ' # trailing comment 1 2 3 0' + eol()
    eq2 = []
    for m, r in pr.get('eqlines', []):
        while m > 1 and rng.random() < 0.6:
            k = rng.randint(1, m - 1)
            eq2.append((k, r))
            m -= k
        eq2.append((m, r))
    rng.shuffle(eq2)
    for m, r in eq2:
        s += sep() + '%d %s 0' % (m, ' '.join('='.join(ref(c) for c in g) for g in r))
    s += sep() + '0' + sep()
    s += sep().join('"%s"' % drive.cname(c) for c in range(1, nc + 1))
    # a quoted string may continue over several lines; inside it # and /* are ordinary characters
    title = pr.get('title', 't')
    s += sep() + '"%s"\n' % ''.join(rng.choice(['\n', ' \n ', ' ']) if ch == ' ' else ch for ch in title)
    return s


def gen_c10(rng, n, rules):
    out = []
    for i in range(n):
        pr = gen.randprofile(rng, maxc=6, maxlines=7, maxm=4, wd=True, und=(rng.random() < 0.3), eq=(i % 3 == 0))
        if pr['eqlines'] and rng.random() < 0.5:
            pr['eqlines'].append((rng.randint(2, 5), [rng.sample(range(1, pr['nc'] + 1), min(3, pr['nc']))]))
        pr['title'] = rng.choice(['t', 'Council election, ward #7 /* north', 'An election #2 of 3', 'a /*b c*/ d'])
        base = drive.mkblt(**pr)
        pres = present(rng, pr, nicks=rng.random() < 0.5)
        for rule in rules:
            if pr['eqlines'] and rule not in ('meek', 'warren'):
                continue
            for opts, lp in gen.configs(rule, rng):
                A, B = run2(base, opts, lp, pres, opts, lp)
                if A['outcome'] == 'reject' or B['outcome'] == 'reject':
                    if A['outcome'] != B['outcome']:
                        out.append(('reject-mismatch', (base, pres, opts, A['exc'], B['exc'])))
                    continue
                p = mkpair('C10', A, B, obs=text_obs(A, B))
                out.append((p, (base, pres, opts, lp)))
    return out


# ---------------------------------------------------------------------------------------- C11
def permuted(rng, pr):
    nc = pr['nc']
    perm = list(range(1, nc + 1))
    rng.shuffle(perm)
    pi = {c: perm[c - 1] for c in range(1, nc + 1)}        # old -> new
    pr3 = dict(pr, lines=[(m, [pi[c] for c in rk]) for m, rk in pr['lines']], tie=[pi[c] for c in pr['tie']],
               withdrawn=[pi[c] for c in pr['withdrawn']], undeclared=[pi[c] for c in pr['undeclared']])
    names = [None] * nc
    for c in range(1, nc + 1):
        names[pi[c] - 1] = 'x%d' % c       # names travel with the candidates
    return pr3, [pi[c] for c in range(1, nc + 1)], names


def deleted(pr):
    keep = [c for c in range(1, pr['nc'] + 1) if c not in pr['withdrawn']]
    ren = {c: i + 1 for i, c in enumerate(keep)}
    l4 = [(m, [ren[c] for c in rk if c in ren]) for m, rk in pr['lines']]
    l4 = [(m, rk) for m, rk in l4 if rk]
    pr4 = dict(nc=len(keep), seats=pr['seats'], lines=l4, tie=[ren[c] for c in pr['tie'] if c in ren], withdrawn=[],
               undeclared=[ren[c] for c in pr['undeclared'] if c in ren], eqlines=[])
    return pr4, [ren.get(c, 0) for c in range(1, pr['nc'] + 1)]


def gen_c11(rng, n, rules):
    out = []
    for i in range(n):
        shape = rng.choice(['random', 'random', 'tie', 'prior', 'prior', 'sparse', 'sparse', 'bullet', 'surplustie', 'reversal'])
        if shape == 'random':
            pr = gen.randprofile(rng, maxc=6, maxlines=7, maxm=4, wd=True, und=False, wdmin=rng.choice([0, 0, 2, 3]), full=rng.random() < 0.5)
        else:
            pr = dict(getattr(gen, shape + 'profile')(rng))
            pr['undeclared'] = []
            pr['eqlines'] = []
        if pr['withdrawn'] and i % 4 == 0:
            # as few ballots as a valid election may have: one per candidate still standing
            elig = [c for c in range(1, pr['nc'] + 1) if c not in pr['withdrawn']]
            pr['lines'] = [(1, [c] + rng.sample([x for x in range(1, pr['nc'] + 1) if x != c], rng.randint(0, pr['nc'] - 1))) for c in elig]
            pr['seats'] = min(pr['seats'], len(elig))
        base = drive.mkblt(**pr)
        pr3, pmap, names3 = permuted(rng, pr)
        permd = drive.mkblt(**pr3)     # names are c<newid>: the harness parses subjects from names, the map carries identity
        pr4, dmap = (None, None)
        if pr['withdrawn']:
            pr4, dmap = deleted(pr)
            deld = drive.mkblt(**pr4)
        for rule in rules:
            cfgs = gen.configs(rule, rng)
            if rule == 'wigm' and shape in ('sparse', 'bullet', 'tie'):
                # zero-vote candidates: the batch-defeat option is where their order matters
                cfgs = cfgs + [(dict(rule='wigm', arithmetic='fixed', precision=3, defeat_batch='zero'), None)]
            for opts, lp in cfgs:
                A, B = run2(base, opts, lp, permd, opts, lp)
                if (A['outcome'] == 'reject') != (B['outcome'] == 'reject'):
                    out.append(('reject-mismatch', (base, permd, opts, A['exc'], B['exc'])))
                if pr4 is not None:
                    C = drive.run_count(deld, opts, lowprec=lp, keepE=True)
                    if (A['outcome'] == 'reject') != (C['outcome'] == 'reject'):
                        # an election with a withdrawn candidate is accepted exactly when the election without him is
                        out.append(('reject-mismatch', (base, deld, opts, A['exc'], C['exc'])))
                    elif C['outcome'] != 'reject':
                        out.append((mkpair('C11b', A, C, nmap=dmap), (base, deld, opts, lp)))
                if A['outcome'] == 'reject' or B['outcome'] == 'reject':
                    continue
                out.append((mkpair('C11a', A, B, nmap=pmap), (base, permd, opts, lp)))
    return out


# ---------------------------------------------------------------------------------------- C07e
def gen_c07e(rng, n, rules):
    out = []
    for i in range(n):
        pr = gen.randprofile(rng, maxc=6, maxlines=8, maxm=4, wd=True, und=(rng.random() < 0.2)) if rng.random() < 0.6 else gen.tieprofile(rng)
        base = drive.mkblt(**pr)
        t2 = list(pr['tie'])
        rng.shuffle(t2)
        other = drive.mkblt(**dict(pr, tie=t2))
        for rule in rules:
            for opts, lp in gen.configs(rule, rng):
                A, B = run2(base, opts, lp, other, opts, lp)
                if A['outcome'] == 'reject' or B['outcome'] == 'reject':
                    continue
                out.append((mkpair('C07e', A, B, obs=text_obs(A, B)), (base, other, opts, lp)))
    return out


# ---------------------------------------------------------------------------------------- C13
def gen_c13b(rng, n):
    out = []
    for i in range(n):
        pr = gen.randprofile(rng, maxc=6, maxlines=7, maxm=3, wd=True, eq=False)
        blt = drive.mkblt(**pr)
        for rule in ('wigm', 'meek', 'warren'):
            p = rng.choice([1, 2, 3, 4])
            of = dict(rule=rule, arithmetic='fixed', precision=p)
            og = dict(rule=rule, arithmetic='guarded', precision=p, guard=0)
            if rule != 'wigm':
                om = rng.choice([1, max(1, p - 1)])
                of['omega'] = om
                og['omega'] = om
            elif rng.random() < 0.3:
                of['integer_quota'] = og['integer_quota'] = True
            bltg, ogx = blt, og
            if i % 3 == 2:
                # the guarded configuration comes from the ballot file's [droop ...] line instead of the caller
                bltg = drive.mkblt(opts=['%s=%s' % (k, str(v).lower() if isinstance(v, bool) else v) for k, v in og.items() if k != 'rule'], **pr)
                ogx = dict(rule=rule)
            A, B = run2(blt, of, None, bltg, ogx, None)
            if A['outcome'] == 'reject' or B['outcome'] == 'reject':
                continue
            out.append((mkpair('C13b', A, B, obs=text_obs(A, B)), (blt, bltg, [of, ogx], None)))
    return out


def project_rational(T, S):
    "observe a rational count at scale S (floor): C13(c) compares at the guarded count's own scale"
    P = dict(T)
    P['kind'] = 'guarded'
    P['S'] = S

    def cv(x):
        return int(Fraction(x) * S // 1)
    acts = []
    for a in T['acts']:
        o = dict(a)
        for k in drive._NUMKEYS:
            o[k] = cv(a[k])
        for k in drive._VECKEYS:
            o[k] = [cv(x) for x in a[k]]
        o['bal'] = []
        o['iters'] = []
        acts.append(o)
    P['acts'] = acts
    P['omega'] = cv(T.get('omega', 0) or 0)
    return P


def gen_c13c(rng, n):
    out = []
    for i in range(n):
        pr = gen.randprofile(rng, maxc=5, maxlines=6, maxm=3, wd=True, eq=(i % 3 == 1))      # equal rankings: meek and warren only
        blt = drive.mkblt(**pr)
        for rule in ('wigm', 'meek', 'warren'):
            if pr['eqlines'] and rule == 'wigm':
                continue
            p, g = rng.choice([(2, 3), (3, 3), (2, 4), (3, 2)])
            og = dict(rule=rule, arithmetic='guarded', precision=p, guard=g)
            orr = dict(rule=rule, arithmetic='rational')
            if rule != 'wigm':
                og['omega'] = orr['omega'] = rng.choice([1, 2])
            A = drive.run_count(blt, og, keepE=True, want_ballots=False)
            B = drive.run_count(blt, orr, keepE=True, want_ballots=False, budget=5)
            if A['outcome'] != 'ok' or B['outcome'] != 'ok':
                out.append((None, ('not explored: ' + (A['outcome'] if A['outcome'] != 'ok' else B['outcome']),)))
                continue
            rep = A['_E'].record().get('arithmetic_report', '')
            mx = int(re.search(r'maxDiff: (\d+)', rep).group(1))
            mn = int(re.search(r'minDiff: (\d+)', rep).group(1))
            geps = 10 ** g // 2
            quiet = (mx * 1000 < geps) and (mn > geps * 1000)
            for a in A['acts']:
                a['bal'] = []
            Bp = project_rational(B, A['S'])
            pp = mkpair('C13c', A, Bp, obs=dict(quiet_stats=quiet), unit=10 ** g)
            out.append((pp, (blt, blt, [og, orr], None)))
    return out


# ---------------------------------------------------------------------------------------- C17
def gen_c17(rng, n):
    out = []
    for i in range(n):
        pr = gen.randprofile(rng, maxc=6, maxlines=7, maxm=3, wd=True, und=True)
        blt = drive.mkblt(**pr)
        fileopts = []
        for k, vals in (('arithmetic', ['rational', 'guarded', 'fixed', 'integer']), ('precision', [0, 3, 7]), ('guard', [0, 2]),
                        ('display', [0, 1, 20]), ('omega', [1, 2, 12]), ('defeat_batch', ['none', 'zero', 'safe']), ('integer_quota', ['true', 'false'])):
            if rng.random() < 0.5:
                fileopts.append('%s=%s' % (k, rng.choice(vals)))
        blt2 = drive.mkblt(opts=fileopts, **pr) if fileopts else blt
        for rule in drive.STATUTORY:
            pert = dict(rule=rule)
            for k, vals in (('arithmetic', ['rational', 'guarded', 'fixed', 'integer']), ('precision', [0, 2, 7]), ('guard', [0, 3]),
                            ('display', [0, 1, 20]), ('omega', [1, 12]), ('defeat_batch', ['none', 'zero', 'safe']), ('integer_quota', [True, False])):
                if rng.random() < 0.6:
                    pert[k] = rng.choice(vals)
            lp = rng.choice(gen.LOWPREC[rule]) if rule in gen.LOWPREC else None
            A, B = run2(blt, dict(rule=rule), lp, blt2, pert, lp)
            if A['outcome'] == 'reject' or B['outcome'] == 'reject':
                if A['outcome'] != B['outcome']:
                    out.append(('reject-mismatch', (blt, blt2, pert, A['exc'], B['exc'])))
                continue
            out.append((mkpair('C17', A, B, obs=text_obs(A, B, body=True)), (blt, blt2, [dict(rule=rule), pert], lp)))
    return out
