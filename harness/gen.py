"""
Input generators: random and shaped election profiles, rule x arithmetic configurations.
Pure functions of a random.Random; no top-level driver code.
"""
import itertools

from drive import RULES, GREG, MEEK


def randprofile(rng, minc=2, maxc=7, maxlines=12, maxm=4, wd=False, und=False, full=False, eq=False, seats=None, wdmin=0):
    nc = rng.randint(max(minc, wdmin + 2), max(maxc, wdmin + 2))
    withdrawn = [c for c in range(1, nc + 1) if wd and rng.random() < 0.15]
    while len(withdrawn) < wdmin:
        withdrawn = sorted(set(withdrawn) | {rng.randint(1, nc)})
    if len(withdrawn) >= nc - 1:
        withdrawn = []
    elig = [c for c in range(1, nc + 1) if c not in withdrawn]
    undeclared = [c for c in elig if und and rng.random() < 0.2]
    if und and withdrawn and rng.random() < 0.3:
        undeclared = sorted(set(undeclared) | {rng.choice(withdrawn)})
    if seats is None:
        seats = rng.randint(1, len(elig))
    seats = min(seats, len(elig))
    lines = []
    eqlines = []
    while True:
        for _ in range(rng.randint(1, maxlines)):
            k = nc if full else rng.randint(1, nc)
            r = rng.sample(range(1, nc + 1), k)
            if eq and rng.random() < 0.3 and k >= 2:
                # group consecutive candidates into equal ranks
                groups = []
                i = 0
                while i < k:
                    g = rng.randint(1, min(3, k - i))
                    groups.append(r[i:i + g])
                    i += g
                if any(len(g) > 1 for g in groups):
                    eqlines.append((rng.randint(1, maxm), groups))
                    continue
            lines.append((rng.randint(1, maxm), r))
        if eq and len(withdrawn) >= 2 and rng.random() < 0.5:
            # papers for withdrawn candidates only, ranked equal: they are not ballots at all
            eqlines.append((rng.randint(1, maxm), [list(rng.sample(withdrawn, 2))] + ([[w for w in withdrawn][-1:]] if len(withdrawn) > 2 else [])))
        nb = sum(m for m, r in lines if any(c not in withdrawn for c in r))
        nb += sum(m for m, r in eqlines if any(c not in withdrawn for g in r for c in g))
        if nb >= len(elig) and lines:
            break
    tie = list(range(1, nc + 1))
    rng.shuffle(tie)
    return dict(nc=nc, seats=seats, lines=lines, tie=tie, withdrawn=withdrawn, undeclared=undeclared, eqlines=eqlines)


def tieprofile(rng, maxc=5):
    "tie-rich: few ballots, symmetric rankings"
    nc = rng.randint(3, maxc)
    seats = rng.randint(1, nc - 1)
    lines = []
    base = list(range(1, nc + 1))
    for _ in range(rng.randint(nc, nc + 4)):
        k = rng.randint(1, nc)
        lines.append((rng.choice([1, 1, 1, 2]), rng.sample(base, k)))
    # symmetric rotation block
    if rng.random() < 0.6:
        m = rng.randint(1, 2)
        for i in range(nc):
            lines.append((m, base[i:] + base[:i]))
    tie = list(base)
    rng.shuffle(tie)
    return dict(nc=nc, seats=seats, lines=lines, tie=tie, withdrawn=[], undeclared=[], eqlines=[])


def quotaprofile(rng, maxc=6):
    "near-quota: n divisible by seats+1, tallies constructed to land on or next to the quota"
    nc = rng.randint(3, maxc)
    seats = rng.randint(1, nc - 1)
    q = rng.randint(max(2, -(-nc // (seats + 1))), max(6, -(-nc // (seats + 1))))         # at least as many ballots as candidates
    n = q * (seats + 1)
    base = list(range(1, nc + 1))
    lines = []
    left = n
    # some candidates get exactly q (or q+-1) first preferences
    for c in rng.sample(base, rng.randint(1, min(seats + 1, nc))):
        v = max(1, min(left, q + rng.choice([-1, 0, 0, 1])))
        if left - v < 0:
            break
        rest = [x for x in base if x != c]
        rng.shuffle(rest)
        # split v between two continuation patterns
        a = rng.randint(0, v)
        if a:
            lines.append((a, [c] + rest[:rng.randint(0, len(rest))]))
        if v - a:
            rng.shuffle(rest)
            lines.append((v - a, [c] + rest[:rng.randint(0, len(rest))]))
        left -= v
    while left > 0:
        m = rng.randint(1, min(3, left))
        lines.append((m, rng.sample(base, rng.randint(1, nc))))
        left -= m
    rng.shuffle(lines)
    tie = list(base)
    rng.shuffle(tie)
    return dict(nc=nc, seats=seats, lines=lines, tie=tie, withdrawn=[], undeclared=[], eqlines=[])


def chainprofile(rng, maxc=7):
    "chains of transfers through the same ballots, multipliers > 1"
    nc = rng.randint(4, maxc)
    seats = rng.randint(2, nc - 1)
    base = list(range(1, nc + 1))
    order = list(base)
    rng.shuffle(order)
    lines = []
    # a dominant bloc ranking everybody in the same order (re-weighted at each election)
    lines.append((rng.randint(6, 14), list(order)))
    lines.append((rng.randint(3, 8), order[:1] + order[2:] ))
    for _ in range(rng.randint(2, 6)):
        k = rng.randint(1, nc)
        lines.append((rng.randint(1, 4), rng.sample(base, k)))
    tie = list(base)
    rng.shuffle(tie)
    return dict(nc=nc, seats=seats, lines=lines, tie=tie, withdrawn=[], undeclared=[], eqlines=[])


def coalitionprofile(rng, maxc=6):
    "a solid coalition of size k*quota + {-1,0,1,+m} ballots whose candidates look weakest"
    nc = rng.randint(3, maxc)
    seats = rng.randint(1, nc - 1)
    base = list(range(1, nc + 1))
    sz = rng.randint(1, nc - 1)
    SS = rng.sample(base, sz)
    others = [c for c in base if c not in SS]
    k = rng.randint(1, min(seats, sz))
    n = rng.randint(max(nc, 6), 24)
    q = n // (seats + 1)
    solid = min(n, max(1, k * q + rng.choice([0, 1, 1, 2])))
    lines = []
    left = solid
    # spread the coalition's first preferences thinly over its members
    while left > 0:
        m = rng.randint(1, min(2, left))
        r = list(SS)
        rng.shuffle(r)
        tail = list(others)
        rng.shuffle(tail)
        lines.append((m, r + tail[:rng.randint(0, len(tail))]))
        left -= m
    left = n - solid
    while left > 0 and others:
        m = rng.randint(1, min(4, left))
        r = list(others)
        rng.shuffle(r)
        tail = list(SS)
        rng.shuffle(tail)
        lines.append((m, r[:rng.randint(1, len(r))] + (tail if rng.random() < 0.3 else [])))
        left -= m
    rng.shuffle(lines)
    tie = list(base)
    rng.shuffle(tie)
    if sum(m for m, r in lines) < nc:
        lines.append((nc, list(base)))
    return dict(nc=nc, seats=seats, lines=lines, tie=tie, withdrawn=[], undeclared=[], eqlines=[])


def hiddenpartnerprofile(rng):
    """a solid coalition {B, Z} worth two quotas all of whose papers put B first: the partner Z has no first
    preferences and lives on B's surplus, while another candidate A also has a surplus (often the bigger one)"""
    seats = 4
    nc = rng.randint(5, 6)
    ids = list(range(1, nc + 1))
    rng.shuffle(ids)
    B, Z, A = ids[0], ids[1], ids[2]
    small = ids[3:]
    q = rng.randint(8, 20)
    n = q * (seats + 1)
    coal = 2 * q + rng.randint(1, 2)
    room = n - coal - len(small)
    a = rng.randint(q, room) if rng.random() < 0.3 else min(room, coal + rng.randint(1, 4))
    lines = [(coal, [B, Z]), (a, [A])]
    left = n - coal - a
    for i, c in enumerate(small):
        m = left if i == len(small) - 1 else rng.randint(1, max(1, left - (len(small) - 1 - i)))
        lines.append((max(m, 0) or 1, [c]))
        left -= m
    rng.shuffle(lines)
    tie = list(range(1, nc + 1))
    rng.shuffle(tie)
    return dict(nc=nc, seats=seats, lines=lines, tie=tie, withdrawn=[], undeclared=[], eqlines=[])


def priorprofile(rng, maxc=6):
    "ties of three or more whose members differed at an earlier stage (Scottish prior-stage rule; weak tie-breaks)"
    nc = rng.randint(4, maxc)
    base = list(range(1, nc + 1))
    order = list(base)
    rng.shuffle(order)
    low = order[0]
    rest = order[1:]
    k2 = min(len(rest) - 1, rng.choice([2, 2, 2, 3, 3]))
    s2 = rest[:k2]           # start one below, each receives one paper from the lowest candidate
    s1 = rest[k2:]           # start at the target
    extra = rng.random() < 0.25 and len(s2) > 1
    T = rng.randint(k2 + 3, k2 + 5)          # the lowest candidate (k2 [+1] papers) must be strictly below the T-1 group
    lines = []
    for c in s1:
        lines.append((T, [c]))
    for c in s2:
        lines.append((T - 1, [c]))
        lines.append((1, [low, c]))
    if extra:      # an extra paper breaks the symmetry for one of them
        lines.append((1, [low, s2[0]]))
    rng.shuffle(lines)
    tie = list(base)
    rng.shuffle(tie)
    seats = rng.choice([1, 1, 2])
    return dict(nc=nc, seats=seats, lines=lines, tie=tie, withdrawn=[], undeclared=[], eqlines=[])


def bulletprofile(rng, maxc=7):
    "heavy exhaustion: mostly bullet votes, several seats, a tied group of low candidates"
    nc = rng.randint(5, maxc)
    seats = rng.randint(3, nc - 1)
    base = list(range(1, nc + 1))
    order = list(base)
    rng.shuffle(order)
    counts = [rng.choice([65, 40, 30]), rng.choice([21, 12, 9]), rng.choice([8, 5, 3])] + [rng.choice([1, 2, 2])] * (nc - 3)
    lines = []
    for c, k in zip(order, counts):
        lines.append((k, [c]))
    for _ in range(rng.randint(0, 3)):
        lines.append((rng.randint(1, 3), rng.sample(base, rng.randint(2, 3))))
    rng.shuffle(lines)
    tie = list(base)
    rng.shuffle(tie)
    return dict(nc=nc, seats=seats, lines=lines, tie=tie, withdrawn=[], undeclared=[], eqlines=[])


def exactprofile(rng, p=2, maxc=5):
    """
    A tally lands EXACTLY on a fractional quota n/(s+1) + one unit: n = (s+1)*M with M = 10^p; X has M+2 first
    preferences (surplus 2 - one unit, transfer value exactly one unit), one X ballot continues to Y who has M.
    Only reachable with multipliers of the order 10^p, hence the reduced-precision variants of the statutory rules.
    """
    M = 10 ** p
    seats = rng.randint(2, 3)
    nc = rng.randint(seats + 2, max(seats + 2, maxc))
    base = list(range(1, nc + 1))
    order = list(base)
    rng.shuffle(order)
    X, Y = order[0], order[1]
    others = order[2:]
    n = (seats + 1) * M
    kx = rng.choice([1, 1, 2])          # X ballots that continue to Y, each worth exactly one unit after the transfer
    lines = [(M + 2 - kx, [X] + rng.sample(others, rng.randint(0, len(others)))), (kx, [X, Y] + others[:1]),
             (M, [Y] + others[:rng.randint(0, 1)])]
    left = n - (M + 2) - M
    while left > 0:
        m = min(left, rng.choice([1, 2, 5, M // 3 + 1, M // 2]))
        c = rng.choice(others)
        rest = [x for x in base if x != c]
        rng.shuffle(rest)
        lines.append((m, [c] + rest[:rng.randint(0, len(rest))]))
        left -= m
    rng.shuffle(lines)
    tie = list(base)
    rng.shuffle(tie)
    return dict(nc=nc, seats=seats, lines=lines, tie=tie, withdrawn=[], undeclared=[], eqlines=[])


def sliverprofile(rng):
    "a candidate whose only support is a sub-tolerance sliver of a vote (guarded arithmetic: nonzero only in the guard digits)"
    seats = rng.randint(2, 4)
    nc = seats + rng.randint(2, 3)
    base = list(range(1, nc + 1))
    order = list(base)
    rng.shuffle(order)
    A, D = order[0], order[1]
    others = order[2:]
    Q = rng.choice([500, 1000, 2000])
    n = (seats + 1) * Q
    lines = [(Q, [A]), (1, [A, D] + others[:rng.randint(0, 2)])]
    left = n - Q - 1
    share = left // len(others)
    for i, c in enumerate(others):
        m = share if i < len(others) - 1 else left - share * (len(others) - 1)
        rest = [x for x in others if x != c]
        rng.shuffle(rest)
        lines.append((m, [c] + rest[:rng.randint(0, len(rest))]))
    rng.shuffle(lines)
    tie = list(base)
    rng.shuffle(tie)
    return dict(nc=nc, seats=seats, lines=lines, tie=tie, withdrawn=[], undeclared=[], eqlines=[])


def reversalprofile(rng):
    "two candidates whose relative order REVERSES across earlier stages and who then tie for exclusion (which prior stage decides?)"
    nc = rng.randint(5, 6)
    order = list(range(1, nc + 1))
    rng.shuffle(order)
    A, B, C, D1, D2 = order[:5]
    a = rng.randint(3, 5)
    b = a + 1
    d1 = rng.randint(2, 3)             # D1's papers all go to A: A overtakes B
    d2 = d1 + 1                        # D2 is excluded after D1; a+d1-b of its papers go to B (tie), the rest to C
    tob = a + d1 - b
    lines = [(a, [A]), (b, [B]), (a + d1 + d2 + 2, [C]), (d1, [D1, A]), (tob, [D2, B]), (d2 - tob, [D2, C])]
    if nc == 6:
        lines.append((1, [order[5], C]))
    lines = [l for l in lines if l[0] > 0]
    rng.shuffle(lines)
    tie = list(range(1, nc + 1))
    rng.shuffle(tie)
    return dict(nc=nc, seats=1, lines=lines, tie=tie, withdrawn=[], undeclared=[], eqlines=[])


def writeinprofile(rng):
    "mpls: an undeclared write-in with a few votes, and close certain-loser decisions in later rounds"
    nc = rng.randint(5, 6)
    order = list(range(1, nc + 1))
    rng.shuffle(order)
    W = order[-1]
    decl = order[:-1]
    w = rng.randint(1, 3)
    top = rng.randint(9, 12)
    if rng.random() < 0.25:
        w = top + rng.randint(-1, 3)        # a write-in campaign: the undeclared candidate is at or above the threshold at once
    tallies = [top]
    dominant = rng.random() < 0.5
    if dominant:
        tallies += [rng.randint(1, 2) for _ in decl[1:]]          # one dominant candidate, everybody else a certain loser
    else:
        for _ in decl[1:]:
            tallies.append(max(1, tallies[-1] - rng.randint(1, 3)))
    lines = []
    bullets = dominant and rng.random() < 0.6        # the leader's papers name nobody else: his surplus goes nowhere
    if bullets:
        nc_keep = rng.randint(3, 4)                   # few declared candidates: more seats than candidates with real support
        decl, tallies = decl[:nc_keep], tallies[:nc_keep]
    for c, t in zip(decl, tallies):
        others = [x for x in decl if x != c]
        k = t if (bullets and c == decl[0]) else rng.randint(0, t)
        if k:
            lines.append((k, [c]))
        if t - k:
            lines.append((t - k, [c, rng.choice(others)]))
    lines.append((w, [W, rng.choice(decl[1:3])]))
    rng.shuffle(lines)
    if bullets:
        # renumber to a compact candidate list (the unused declared candidates are dropped)
        used = decl + [W]
        ren = {c: i + 1 for i, c in enumerate(sorted(used))}
        lines = [(m, [ren[c] for c in r]) for m, r in lines]
        nc = len(used)
        W = ren[W]
        if sum(m for m, _ in lines) < nc:
            lines.append((nc, [ren[decl[0]]]))
    tie = list(range(1, nc + 1))
    rng.shuffle(tie)
    return dict(nc=nc, seats=(2 if bullets else rng.choice([2, 3])) if dominant else rng.choice([1, 2, 2, 3]), lines=lines, tie=tie, withdrawn=[], undeclared=[W], eqlines=[])


def surplustieprofile(rng):
    "two candidates reach the quota at the same stage with EQUAL tallies after having differed before (largest-surplus tie by prior stage / by lot)"
    nc = rng.randint(4, 6)
    order = list(range(1, nc + 1))
    rng.shuffle(order)
    A, B, D = order[:3]
    others = order[3:]
    x = rng.randint(1, 2)
    t = rng.randint(5, 8)
    # A has t, B has t-1; D (lowest) is excluded and passes x papers to A and x+1 to B: both end on t+x
    lines = [(t, [A] + rng.sample(others, rng.randint(0, len(others)))), (t - 1, [B] + rng.sample(others, rng.randint(0, len(others)))),
             (x, [D, A]), (x + 1, [D, B])]
    rest = rng.randint(1, 3)
    for c in others:
        lines.append((2 * x + 2 + rest, [c]))        # above D, below the quota
    n = sum(m for m, _ in lines)
    seats = 2
    # quota must be reached by t+x but not by t: scotland/mpls quota = n//(seats+1)+1
    rng.shuffle(lines)
    tie = list(range(1, nc + 1))
    rng.shuffle(tie)
    return dict(nc=nc, seats=seats, lines=lines, tie=tie, withdrawn=[], undeclared=[], eqlines=[])


def bigmprofile(rng):
    "few lines with multipliers in the thousands (truncation effects scale with the multiplier)"
    nc = rng.randint(3, 5)
    seats = rng.randint(1, nc - 1)
    base = list(range(1, nc + 1))
    lines = []
    for _ in range(rng.randint(3, 6)):
        lines.append((rng.choice([1, 7, 100, 999, 1000, 2500, 4001]), rng.sample(base, rng.randint(1, nc))))
    lines.append((rng.randint(nc, 50), list(base)))
    tie = list(base)
    rng.shuffle(tie)
    return dict(nc=nc, seats=seats, lines=lines, tie=tie, withdrawn=[], undeclared=[], eqlines=[])


def sparseprofile(rng):
    "short ballots that exhaust early, candidates without first preferences, more seats than candidates with any support"
    nc = rng.randint(4, 7)
    seats = rng.randint(2, nc - 1)
    base = list(range(1, nc + 1))
    supported = rng.sample(base, rng.randint(1, max(1, seats - 1)))
    lines = []
    unsupported = [c for c in base if c not in supported]
    for c in supported:
        lines.append((rng.randint(2, 9), [c]))
        if rng.random() < 0.5:
            lines.append((rng.randint(1, 3), [c, rng.choice(base)] if rng.random() < 0.5 else [c]))
        if unsupported and len(supported) > 1 and rng.random() < 0.6:
            # a paper that passes over a candidate nobody supports on its way to another supported one
            lines.append((rng.randint(1, 4), [c, rng.choice(unsupported), rng.choice([x for x in supported if x != c])]))
    lines = [(m, list(dict.fromkeys(r))) for m, r in lines]
    if rng.random() < 0.5:
        lines.append((1, rng.sample(base, 2)))
    while sum(m for m, _ in lines) < nc:
        lines.append((nc, [rng.choice(supported)]))
    rng.shuffle(lines)
    tie = list(base)
    rng.shuffle(tie)
    wd = [c for c in base if c not in supported and rng.random() < 0.2][:1]
    return dict(nc=nc, seats=min(seats, nc - len(wd)), lines=lines, tie=tie, withdrawn=wd, undeclared=[], eqlines=[])


def unanimousprofile(rng):
    "(almost) every ballot starts with the same candidate: one elected candidate holds nearly all the votes"
    nc = rng.randint(3, 5)
    seats = rng.randint(2, nc - 1)
    base = list(range(1, nc + 1))
    order = list(base)
    rng.shuffle(order)
    lines = [(rng.randint(6, 12), order[:rng.randint(2, nc)])]
    if rng.random() < 0.5:
        lines.append((rng.randint(1, 3), [order[0]] + rng.sample(order[1:], rng.randint(0, nc - 1))))
    if rng.random() < 0.3:
        lines.append((1, [order[-1]]))
    tie = list(base)
    rng.shuffle(tie)
    return dict(nc=nc, seats=seats, lines=lines, tie=tie, withdrawn=[], undeclared=[], eqlines=[])


def neartieprofile(rng):
    """
    guarded arithmetic: two candidates pending at once whose tallies differ only in the guard digits (8 against 6 + 6 x 0.333..),
    so that they tie within the tolerance although their stored values differ; the tie order decides
    """
    k = rng.choice([1, 1, 2])
    A, B, C, D, E = rng.sample(range(1, 6), 5)
    # 30k ballots, 4 seats: quota 6k; C has 9k (transfer value 1/3), six of C's papers go to B (6k + 2k*0.333..), A has 8k outright
    lines = [(8 * k, [A]), (6 * k, [B]), (6 * k, [C, B]), (3 * k, [C, D]), (4 * k, [D]), (3 * k, [E])]
    rng.shuffle(lines)
    tie = [B, A] + [x for x in (C, D, E)]
    if rng.random() < 0.3:
        rng.shuffle(tie)
    order = {c: i + 1 for i, c in enumerate(tie)}
    return dict(nc=5, seats=4, lines=lines, tie=tie, withdrawn=[], undeclared=[], eqlines=[])


SHAPES = dict(hiddenpartner=hiddenpartnerprofile, unanimous=unanimousprofile, neartie=neartieprofile, surplustie=surplustieprofile, bigm=bigmprofile, sparse=sparseprofile, reversal=reversalprofile, writein=writeinprofile, prior=priorprofile, bullet=bulletprofile, exact=exactprofile, sliver=sliverprofile, random=randprofile, tie=tieprofile, quota=quotaprofile, chain=chainprofile, coalition=coalitionprofile)

# configurations whose numbers fit TLC's 32-bit integers for small electorates
WIGM_ARITH = [
    {'arithmetic': 'fixed', 'precision': 2},
    {'arithmetic': 'fixed', 'precision': 4},
    {'arithmetic': 'integer'},
    {'arithmetic': 'rational'},
    {'arithmetic': 'guarded', 'precision': 3, 'guard': 2},
    {'arithmetic': 'guarded', 'precision': 2, 'guard': 1},
    {'arithmetic': 'guarded', 'precision': 4, 'guard': 0},
    {'arithmetic': 'fixed', 'precision': 1, 'integer_quota': True},
    {'arithmetic': 'fixed', 'precision': 3, 'defeat_batch': 'zero'},
    {'arithmetic': 'fixed', 'precision': 4, 'display': 2},
    {'arithmetic': 'guarded', 'precision': 3, 'guard': 0, 'display': 1},
    {'arithmetic': 'guarded', 'precision': 3, 'guard': 2, 'integer_quota': True},
    {'arithmetic': 'rational', 'integer_quota': True},
    {'arithmetic': 'guarded', 'precision': 3, 'guard': 2, 'display': 0},
]
MEEK_ARITH = [
    {'arithmetic': 'fixed', 'precision': 3},
    {'arithmetic': 'fixed', 'precision': 2, 'omega': 1},
    {'arithmetic': 'fixed', 'precision': 5, 'defeat_batch': 'none'},
    {'arithmetic': 'guarded', 'precision': 4, 'guard': 2},
    {'arithmetic': 'guarded', 'precision': 3, 'guard': 0},
    {'arithmetic': 'guarded', 'precision': 2, 'guard': 2, 'omega': 1},
    {'arithmetic': 'fixed', 'precision': 4, 'display': 1, 'omega': 2},
    {'arithmetic': 'guarded', 'precision': 3, 'guard': 2, 'display': 0, 'omega': 2},
]
WARREN_ARITH = [
    {'arithmetic': 'fixed', 'precision': 3},
    {'arithmetic': 'fixed', 'precision': 5, 'omega': 2},
    {'arithmetic': 'guarded', 'precision': 3, 'guard': 2},
]
LOWPREC = {'meek-prf': [(4, None, 2), (5, None, 3), (3, None, 2)], 'qpq': [(3, 2, None), (2, 2, None), (3, 3, None)]}
# reduced-precision variants of the other statutory rules (None = the statutory constants themselves)
LOWPREC_OPT = {'wigm-prf': [None, None, (2, None, None), (1, None, None)], 'wigm-prf-batch': [None, None, (2, None, None), (1, None, None)],
               'cfer': [None, None, (2, None, None), (1, None, None)], 'cfer-batch': [None, None, (2, None, None), (1, None, None)],
               'scotland': [None, None, (2, None, None)], 'mpls': [None, None, (2, None, None)]}


def thirdsprofile(rng):
    """a surplus worth exactly 1/3 per paper carries a candidate to one unit short of a whole-number quota:
    A has 3m papers `A C', the quota is 2m, C has m first preferences: m + 3m * 0.333.. = 2m - tiny"""
    m = rng.randint(2, 5)
    q = 2 * m
    n = 3 * q - 3 + rng.randint(0, 2)            # floor(n / 3) + 1 = q for two seats
    nc = rng.randint(3, 5)
    ids = list(range(1, nc + 1))
    rng.shuffle(ids)
    A, C, D = ids[0], ids[1], ids[2]
    rest = n - 4 * m
    lines = [(3 * m, [A, C]), (m, [C]), (rest, [D] + ([ids[3]] if nc > 3 and rng.random() < 0.5 else []))]
    if nc > 3 and rng.random() < 0.5 and rest > 2:
        lines[2] = (rest - 1, lines[2][1])
        lines.append((1, [ids[3], D]))
    rng.shuffle(lines)
    tie = list(range(1, nc + 1))
    rng.shuffle(tie)
    return dict(nc=nc, seats=2, lines=lines, tie=tie, withdrawn=[], undeclared=[], eqlines=[])


def configs(rule, rng=None, all_=False, k=1):
    "list of (opts, lowprec) for a rule"
    if rule == 'wigm':
        L = [(dict(rule=rule, **a), None) for a in WIGM_ARITH]
    elif rule == 'meek':
        L = [(dict(rule=rule, **a), None) for a in MEEK_ARITH]
    elif rule == 'warren':
        L = [(dict(rule=rule, **a), None) for a in WARREN_ARITH]
    elif rule in LOWPREC:
        L = [(dict(rule=rule), lp) for lp in LOWPREC[rule]]
    elif rule in LOWPREC_OPT:
        L = [(dict(rule=rule), lp) for lp in LOWPREC_OPT[rule]]
    else:
        L = [(dict(rule=rule), None)]
    if all_ or rng is None:
        return L
    # stratified: successive calls walk through the rule's configurations cyclically (start chosen by the seed),
    # so that one run covers all of them instead of a random handful
    k = min(k, len(L))
    pos = _CYCLE.get(rule)
    if pos is None:
        pos = rng.randrange(len(L))
    out = [L[(pos + j) % len(L)] for j in range(k)]
    _CYCLE[rule] = (pos + k) % len(L)
    return out


_CYCLE = {}


def coalsurplusprofile(rng):
    """a solid coalition {A, X, Y} worth two quotas whose votes sit almost entirely with A: X and Y trail the field, together they
    have fewer votes than the next candidate Z but more once A's pending surplus reaches them (sure-loser tests must count it)"""
    if rng.random() < 0.35:
        # twin form: two coalition members over the quota at once, the third needs BOTH pending surpluses to pass Z
        for _ in range(300):
            q = rng.randint(15, 40)
            sa, sb = rng.randint(2, q // 2), rng.randint(2, q // 2)
            x = rng.randint(2, max(2, q // 3))
            z = 2 * q - sa - sb - x
            if x + max(sa, sb) < z < x + sa + sb and z < q and z > 0:
                nc = 4
                ids = [1, 2, 3, 4]
                rng.shuffle(ids)
                A, B, X, Z = ids
                lines = [(q + sa, [A, B, X, Z]), (q + sb, [B, A, X, Z]), (x, [X, A, B, Z]), (z, [Z])]
                rng.shuffle(lines)
                tie = [1, 2, 3, 4]
                rng.shuffle(tie)
                return dict(nc=nc, seats=3, lines=lines, tie=tie, withdrawn=[], undeclared=[], eqlines=[])
    s = rng.choice([2, 3, 3])
    q = rng.randint(8, 16)
    n = q * (s + 1)
    nc = rng.randint(5, 6) if s == 3 else rng.randint(4, 5)
    ids = list(range(1, nc + 1))
    rng.shuffle(ids)
    A, X, Y, Z = ids[:4]
    rest = ids[4:]
    x, y = rng.randint(1, 3), rng.randint(1, 3)
    coal = 2 * q + rng.randint(1, 2)
    a = coal - x - y
    sur = a - q
    z = rng.randint(x + y + 1, max(x + y + 1, min(x + y + sur - 1, q - 1)))
    left = n - coal - z
    lines = []
    k = rng.randint(1, a - 1)
    lines += [(k, [A, X, Y]), (a - k, [A, Y, X]), (x, [X, A, Y]), (y, [Y, X, A]), (z, [Z] + (rest[:1] if rest and rng.random() < 0.5 else []))]
    if rest:
        m = left
        for i, c in enumerate(rest):
            v = m if i == len(rest) - 1 else rng.randint(0, m)
            if v:
                lines.append((v, [c] + ([Z] if rng.random() < 0.5 else [])))
            m -= v
    elif left > 0:
        lines.append((left, [Z]))
    lines = [(m, r) for m, r in lines if m > 0]
    if sum(m for m, _ in lines) < nc:
        lines.append((nc, [Z]))
    rng.shuffle(lines)
    tie = list(range(1, nc + 1))
    rng.shuffle(tie)
    return dict(nc=nc, seats=s, lines=lines, tie=tie, withdrawn=[], undeclared=[], eqlines=[])


def manycandsprofile(rng):
    "more than 256 candidates (two-byte candidate ids in the profile's arrays): the contest is among candidates numbered above 256 and one below"
    nc = rng.randint(260, 266)
    hi = rng.sample(range(257, nc + 1), 3)
    lo = rng.randint(1, 256)
    a, b, c = hi
    lines = [(rng.randint(170, 190), [a, b]), (rng.randint(80, 95), [lo, b]), (rng.randint(25, 35), [b]), (rng.randint(15, 25), [c, lo])]
    rng.shuffle(lines)
    tie = list(range(1, nc + 1))
    rng.shuffle(tie)
    return dict(nc=nc, seats=2, lines=lines, tie=tie, withdrawn=[], undeclared=[], eqlines=[])


SHAPES.update(thirds=thirdsprofile, manycands=manycandsprofile, coalsurplus=coalsurplusprofile)
