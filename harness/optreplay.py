"""
C17: spec -> code replay of the option-lattice cases exported by spec/Options.tla.
No top-level driver code.
"""
import re, json
import drive
from drive import ElectionProfile, Election, UsageError
from droop.options import Options
from droop.values import ArithmeticValuesError

_CASE = re.compile(r'^"OPTCASE (.*)"\s*$', re.M)
BLT = '3 2 %s 4 1 2 0 3 2 3 0 2 3 0 1 1 3 0 0 "A" "B" "C" "t"'


def cases_of(out):
    return [json.loads(m.group(1).replace('\\"', '"').replace('\\\\', '\\')) for m in _CASE.finditer(out)]


def typed(v):
    if v == 'true':
        return True
    if v == 'false':
        return False
    if re.match(r'\d+$', v):
        return int(v)
    return v


def norm(v):
    if v is None:
        return 'NONE'
    if isinstance(v, bool):
        return 'true' if v else 'false'
    return str(v)


def normd(d):
    return {k: norm(v) for k, v in d.items()}


def replay(case):
    "returns a list of differences (empty = the code does what the specification says)"
    for k in ('cmd', 'file', 'default', 'force', 'effective', 'pre'):
        if isinstance(case[k], list):      # the empty function is printed as an empty JSON array
            case[k] = {}
    fitems = ['%s=%s' % (k, v) for k, v in sorted(case['file'].items())]
    if len(fitems) >= 2 and (len(case['rule']) + len(fitems) + len(case['cmd'])) % 2 == 0:
        # the file layer may be spread over several [droop ...] lines: they accumulate
        blt = BLT % ('[droop %s]\n[droop %s]' % (fitems[0], ' '.join(fitems[1:])))
    else:
        blt = BLT % ('[droop %s]' % ' '.join(fitems) if fitems else '')
    cmd = {k: typed(v) for k, v in case['cmd'].items()}       # the rule name is part of the layer(s) the case puts it in
    diffs = []
    try:
        if case['pre']:
            # defaults registered on the Options object before the election sees it (Options.setopt is public)
            opts = Options(dict(cmd))
            for k, v in sorted(case['pre'].items()):
                opts.setopt(k, default=typed(v))
        else:
            opts = dict(cmd)
        E = Election(ElectionProfile(data=blt), opts)
        err = ''
    except UsageError:
        err = 'UsageError'
    except ArithmeticValuesError:
        err = 'ArithmeticValuesError'
    except Exception as e:
        err = 'crash:' + type(e).__name__
    if not err and norm(E.options.getopt('rule')) != case['rule']:
        diffs.append(('rule chosen', case['rule'], norm(E.options.getopt('rule'))))
    if err != case['err']:
        return [('outcome', case['err'] or 'constructed', err or 'constructed')], blt, cmd
    if err:
        return [], blt, cmd
    rec = E.options.record()
    for layer, key in (('default', 'default'), ('force', 'force'), ('effective', 'options')):
        want, got = case[layer], normd(rec[key])
        if want != got:
            diffs.append((layer, want, got))
    for k in set(case['effective']):
        if norm(E.options.getopt(k)) != case['effective'][k]:
            diffs.append(('getopt ' + k, case['effective'][k], norm(E.options.getopt(k))))
    if sorted(case['unused']) != E.options.unused():
        diffs.append(('unused', sorted(case['unused']), E.options.unused()))
    if sorted(case['overridden']) != E.options.overrides():
        diffs.append(('overridden', sorted(case['overridden']), E.options.overrides()))
    V = E.V
    got = (V.name, norm(getattr(V, 'precision', None)) if V.name != 'rational' else 'NONE',
           norm(V.guard) if V.name == 'guarded' else 'NONE', norm(V.dp if V.name == 'rational' else V.display))
    want = (case['cls'], case['precision'], case['guard'], case['display'])
    if got != want:
        diffs.append(('arithmetic class', want, got))
    # the report names unused and overridden options (header lines), exactly those sets
    try:
        import io, contextlib
        with contextlib.redirect_stdout(io.StringIO()):
            E.count()
        rep = E.report()
    except Exception:          # a count that fails (e.g. meek with integer arithmetic asserts) has no report to read
        rep = None
    if rep is not None:
        def listed(prefix):
            for l in rep.split('\n'):
                if l.startswith(prefix):
                    return sorted(l[len(prefix):].split(', '))
            return []
        if listed('\tUnused options: ') != sorted(case['unused']):
            diffs.append(('report: Unused options line', sorted(case['unused']), listed('\tUnused options: ')))
        if listed('\tOverridden options: ') != sorted(case['overridden']):
            diffs.append(('report: Overridden options line', sorted(case['overridden']), listed('\tOverridden options: ')))
    return diffs, blt, cmd
