"""
Check implementations.  Each check_<kind>(prop, tier) returns a process exit code.
No top-level driver code; `run` (the entry point) calls main().
"""
import sys, os, re, json, random, time, collections

HERE = os.path.dirname(os.path.abspath(__file__))
if HERE not in sys.path:
    sys.path.insert(0, HERE)

import drive, gen, vlib, model, pairs, arith, history, fresh, interrupt, render, blt, optreplay  # noqa: E402

BATCH = 1200     # traces per TLC start (JSON loading dominates; keeps the heap small)


def known_ids():
    return {e['id']: e for e in vlib.load_known() if e.get('kind') == 'finding'}


# ----------------------------------------------------------------------------------------
#  count monitors: C01 C02 C04 C05 C06 C07 C08 C09 C18(record part)
# ----------------------------------------------------------------------------------------
MIX = {
    'C01': [('random', 4), ('tie', 1), ('quota', 1), ('coalition', 1), ('chain', 1), ('bullet', 2), ('exact', 1), ('sparse', 2), ('bigm', 1), ('unanimous', 1), ('thirds', 1), ('writein', 2)],
    'C02': [('random', 3), ('chain', 3), ('quota', 1), ('bigm', 2), ('sparse', 1), ('neartie', 1), ('unanimous', 1), ('sliver', 2)],
    'C04': [('quota', 3), ('exact', 3), ('random', 2), ('tie', 1), ('sparse', 1), ('bigm', 1), ('thirds', 2)],
    'C05': [('coalition', 4), ('random', 2), ('unanimous', 1), ('sparse', 1), ('hiddenpartner', 2), ('coalsurplus', 3)],
    'C06': [('chain', 3), ('random', 3), ('quota', 1), ('bigm', 1), ('sparse', 3), ('surplustie', 1), ('neartie', 2), ('thirds', 2), ('sliver', 1)],
    'C07': [('tie', 3), ('prior', 2), ('reversal', 1), ('surplustie', 2), ('writein', 2), ('random', 2), ('quota', 1), ('bullet', 1), ('coalition', 1), ('sparse', 1), ('neartie', 1), ('coalsurplus', 1)],
    'C08': [('random', 4), ('tie', 1), ('quota', 1), ('unanimous', 1)],
    'C09': [('random', 4), ('tie', 1), ('coalition', 1), ('bullet', 2), ('exact', 1), ('sparse', 2), ('thirds', 1), ('hiddenpartner', 1), ('writein', 2)],
    'C18': [('random', 4), ('tie', 1), ('quota', 1), ('sparse', 1), ('writein', 1)],
}
RULESET = {
    'C06': drive.GREG,
    'C08': drive.MEEK,
}
NPROFILES = {'quick': 150, 'thorough': 1500}


_SCHED = {}


def pick_shape(rng, mix):
    """stratified: the shapes of a mix come round in proportion to their weights (a shuffled schedule per mix), so that
    every shape is exercised in every run instead of being left to chance"""
    key = tuple(mix)
    sch = _SCHED.get(key)
    if not sch:
        sch = [s for s, w in mix for _ in range(int(w))]
        rng.shuffle(sch)
        _SCHED[key] = sch
    return sch.pop()


def make_profile(rng, shape, prop, rule_hint=None):
    if shape == 'exact':
        return gen.exactprofile(rng, p=2)
    if shape == 'random':
        return gen.randprofile(rng, wd=True, und=(prop not in ('C05',)), full=(prop == 'C05' and rng.random() < 0.6),
                               maxc=6 if prop == 'C05' else 7, wdmin=rng.choice([0, 0, 2, 3]))
    return gen.SHAPES[shape](rng)


def f2_match(T):
    "F2: mpls, fewer declared candidates than seats: right winners, then AssertionError in postCheck"
    if T['rule'] != 'mpls' or T['outcome'] != 'exc' or T['exc'] != 'AssertionError':
        return False
    declared = [c for c in range(1, T['nc'] + 1) if not T['wd'][c - 1] and not T['und'][c - 1]]
    return len(declared) < T['seats']


def f25_match(T):
    """F25: meek family, the first over-commitment of seats is an in-iteration election (D.4) of a candidate that has the quota;
    the count then ends in postCheck's AssertionError."""
    if drive.fam(T['rule']) != 'meek' or T['outcome'] != 'exc' or T['exc'] != 'AssertionError':
        return False
    for a in T['acts']:
        if sum(1 for s in a['st'] if s == 'E') > T['seats']:
            c = a.get('subj', 0)
            if a['tag'] != 'elect' or a['mc'] != 'elect' or not c:
                return False
            v, q = a['vote'][c - 1], a['quota']
            return (v - q >= T.get('geps', 1)) if T.get('exactq') else v >= q
    return False


def f11_match(T):
    """F11: warren, an iteration ends 'stable' with a surplus above omega and a candidate is then excluded
    (the exclusion is decided with that surplus untransferred)."""
    if T['rule'] != 'warren':
        return False
    acts = T['acts']
    for k, a in enumerate(acts):
        if a['mc'] == 'iterate_stable' and a['surplus'] - T['omega'] >= T.get('geps', 1):
            if any(b['tag'] == 'defeat' and b['mc'] != 'defeat_remaining' for b in acts[k + 1:k + 4]):
                return True
    return False



# ----------------------------------------------------------------------------------------
#  design level: model checking of spec/Droop.tla and spec -> code replay
# ----------------------------------------------------------------------------------------
def model_configs(rules=None):
    L = list(model.STATUTORY_CFG.values()) + [
        model.cfgrec('wigm-prf-batch', p=1), model.cfgrec('cfer-batch', p=1), model.cfgrec('scotland', p=1), model.cfgrec('mpls', p=1),
        model.cfgrec('wigm', p=2, batch='none'),
        model.cfgrec('wigm', kind='guarded', p=2, g=1, batch='zero'),
        model.cfgrec('wigm', p=0, intq=True, batch='none'),
        model.cfgrec('meek', p=3, omega10=2, batch='safe'),
        model.cfgrec('meek', kind='guarded', p=2, g=1, omega10=1, batch='none'),
        model.cfgrec('warren', p=2, omega10=1, batch='safe'),
        model.cfgrec('meek-prf', p=4, omega10=2),
        model.cfgrec('qpq', kind='guarded', p=3, g=2)]
    if rules is not None:
        L = [c for c in L if c['rule'] in rules]
    return L


def check_of(prop, rules):
    return [prop]


def judge_header(h, props):
    "run the real code on a model header and judge its trace with the given properties"
    blt, opts, lp = model.header_to_input(h)
    T = drive.run_count(blt, opts, lowprec=lp, iters=True)
    Nt = drive.to_native(T)
    if Nt is None:
        return None, T, (blt, opts, lp)
    Nt['id'] = 1
    Nt['fam'] = drive.fam(T['rule'])
    verd, _ = vlib.judge([Nt], props, workers=1)
    return verd[1], T, (blt, opts, lp)


def model_stage(R, prop, tier, rules=None, export_mod=0, c03=False, known=None):
    """
    (M) TLC checks the property operators on every finished count of the bounded scope;
    (S->C) every exported case is replayed into the real code and compared action by action.
    A model counterexample becomes a VIOLATION only if the real code reproduces it.
    """
    known = known or {}
    cfgs = model_configs(rules)
    if not cfgs:
        return
    scopes = [dict(nc=3, maxb=3, maxm=2, seatset=(1, 2), ties=[(1, 2, 3), (3, 1, 2)])]
    if tier == 'thorough':
        scopes = [dict(nc=3, maxb=4, maxm=2, seatset=(1, 2, 3), ties=[(1, 2, 3), (3, 1, 2), (2, 3, 1)]),
                  dict(nc=4, maxb=3, maxm=1, seatset=(1, 2, 3), ties=[(1, 2, 3, 4), (4, 2, 3, 1)])]
    # beyond the exhaustive small scopes: TLC's random simulation of the same specification over a scope far too large to enumerate
    # (5 candidates, up to 60 ballots, multipliers to 25, withdrawn and undeclared candidates) -- every behaviour is a whole election
    simsc = dict(nc=5, maxb=60, maxm=25, seatset=(1, 2, 3), ties=[(1, 2, 3, 4, 5), (5, 3, 1, 2, 4), (2, 4, 5, 1, 3)], wds=((), (2,), (1, 5)))
    scopes = [(sc, None) for sc in scopes] + [(simsc, 'num=%d' % (60 if tier == 'quick' else 1200))]
    for sc, sim in scopes:
        unds = [(), (1,)] if any(c['rule'] == 'mpls' for c in cfgs) else [()]
        res = model.mc_run(cfgs, check=[prop] if not c03 else ['C01', 'C09'], export=(export_mod if sim is None else 7), unds=unds,
                           devs=[d for d in model.ALL_DEVS if model.DEV_FINDING[d] in known], devneutral=c03,
                           timeout=3000 if tier == 'thorough' else 600, simulate=sim,
                           extra=(['-depth', '80', '-seed', str(vlib.seed() * 7919 + 17)] if sim else []), **sc)
        R.add_tlc(res)
        iv = model.invariant_violation(res['out'])
        if sim:
            m = re.search(r'(\d+) states checked, (\d+) traces generated', res['out'])
            R.stage('simulate Droop.tla', scope=str(sc), traces=int(m.group(2)) if m else None, states_checked=int(m.group(1)) if m else None,
                    wall_s=round(res['wall'], 1), timed_out=bool(res.get('timeout')), invariant_violated=iv[0] if iv else None)
        else:
            R.stage('model-check Droop.tla', scope=str(sc), configs=[c['rule'] + ':' + c['kind'] + str(c['p']) for c in cfgs],
                    distinct_states=res['distinct'], wall_s=round(res['wall'], 1), invariant_violated=iv[0] if iv else None)
        if iv:
            payloads = model.fails_of(res['out'])
            if not payloads:
                raise vlib.Machinery('TLC reports %s violated but no counterexample payload:\n%s' % (iv[0], res['out'][-2500:]))
            kind, pl = payloads[0]
            h = pl['h']
            if kind == 'DEVDIFF':
                blt, opts, lp = model.header_to_input(h)
                R.violation('C03: a listed deviation of the code from the rule text changes the winners (TextSpec vs CodeSpec differ) rule=%s' % h['rule'],
                            dict(blt=blt, options=opts, lowprec=lp, devs=pl['devs']))
                continue
            fails, T, (blt, opts, lp) = judge_header(h, [prop])
            if fails:
                p, cl, k = fails[0]
                R.violation('%s clause %s at action %d: model counterexample reproduced on the real code, rule=%s' % (p, cl, k, h['rule']),
                            dict(blt=blt, options=opts, lowprec=lp, clause=cl, action_index=k, model_fails=pl['fails']))
            else:
                raise vlib.Machinery('SPEC-DIVERGENCE: the model violates %s on %s but the real code does not: %s' % (prop, h['rule'], json.dumps(pl['fails'])))
        elif 'Error:' in res['out']:
            i = res['out'].find('Error:')
            raise vlib.Machinery('TLC error:\n' + res['out'][max(0, i - 300):i + 2500])
        cases = model.cases_of(res['out'])
        if sim and len(cases) > (400 if tier == 'quick' else 6000):
            cases = cases[:(400 if tier == 'quick' else 6000)]
        nd = 0
        for case in cases:
            d, T, (blt, opts, lp) = model.replay_case(case)
            R.cov['traces_validated_against_impl'] += 1
            if d is None:
                continue
            nd += 1
            statutory = case['h']['rule'] in drive.STATUTORY
            if c03 and statutory and d['field'] in model.C03_FIELDS + ['subjs', 'tied', '(length)', 'outcome']:
                R.violation('C03: the code departs from the %s specification at action %d field %s (expected %s, observed %s)' % (
                    case['h']['rule'], d['index'], d['field'], d['expected'], d['observed']),
                    dict(blt=blt, options=opts, lowprec=lp, difference=d))
            else:
                R.cov.setdefault('spec_code_divergences', []).append(dict(rule=case['h']['rule'], blt=blt, difference=d))
        R.stage('spec->code replay', cases=len(cases), differences=nd)
        if cases:
            c0 = cases[0]
            R.sample(dict(kind='spec->code case', rule=c0['h']['rule'], lines=c0['h']['lines'], seats=c0['h']['seats'],
                          expected_actions=[(a['tag'], a['subj']) for a in c0['acts']]))


def render_stage(R, tier):
    "C18: report/dump/json of counted elections, parsed into fields, against the record (Render.tla)"
    rng = random.Random(vlib.seed() * 1000003 + 1818)
    recs, meta = [], {}
    rid = 0
    n = 60 if tier == 'quick' else 800
    for i in range(n):
        sliver = (i % 6 == 5)
        pr = gen.randprofile(rng, maxc=6, maxlines=8, maxm=4, wd=True, und=True, eq=False) if not sliver else gen.sliverprofile(rng)
        blt = drive.mkblt(**pr)
        for rule in drive.RULES:
            opts = dict(rule=rule)
            if sliver and rule in ('wigm', 'meek', 'warren'):
                opts = dict(rule=rule, arithmetic='guarded', precision=rng.choice([2, 3]), guard=rng.choice([1, 2, 3]))
            elif rule in ('wigm', 'meek', 'warren') and rng.random() < 0.7:
                opts = rng.choice(gen.configs(rule, all_=True))[0]
                if rule != 'wigm' and opts.get('arithmetic') == 'rational':
                    opts = dict(rule=rule)
            if rng.random() < 0.2:
                opts['display'] = rng.choice([0, 1, 2, 6])
            T = drive.run_count(blt, opts, keepE=True, want_ballots=False)
            R.cov['evaluations'] += 1
            if T['outcome'] != 'ok':
                continue
            try:
                X = render.build(T['_E'])
            except Exception as e:
                R.violation('C18: a rendering of a completed count fails: %s: %s (rule %s)' % (type(e).__name__, e, rule), dict(blt=blt, options=opts))
                continue
            rid += 1
            X['id'] = rid
            recs.append(X)
            meta[rid] = (blt, opts)
    for lo in range(0, len(recs), 500):
        chunk = recs[lo:lo + 500]
        out, res = vlib.judge_render(chunk, workers=16)
        R.add_tlc(res)
        R.cov['traces_validated_against_impl'] += len(chunk)
        for x in chunk:
            fails = out[x['id']]
            known = known_ids()
            if any(cl == 'KNOWN_F20' for cl, k in fails) and 'F20' in known:
                R.known_finding('F20', known['F20']['text'])
                fails = [f for f in fails if f[0] != 'KNOWN_F20']
            if fails:
                blt, opts = meta[x['id']]
                cl, k = fails[0]
                R.violation('C18: rendering disagrees with the record: %s at action %d (%s)' % (cl, k, opts), dict(blt=blt, options=opts, failed=fails))
    R.stage('renderings judged by Render.tla', elections=len(recs))
    R.cov['distinct_nontrivial'] += len(recs)


def configs_for(rule, rng, shape, all_=False):
    "exact-threshold profiles are built for two decimal places: run them on the p=2 variants"
    if shape == 'quota' and rule == 'wigm':
        return [(dict(rule=rule, arithmetic='fixed', precision=rng.choice([1, 2]), integer_quota=True), None),
                (dict(rule=rule, arithmetic=rng.choice(['guarded', 'rational']), integer_quota=True), None) if rng.random() < 0.5 else
                (dict(rule=rule, arithmetic='guarded', precision=3, guard=2, integer_quota=True), None),
                (dict(rule=rule, arithmetic=rng.choice(['integer', 'fixed']), precision=2), None)] + gen.configs(rule, rng)
    if shape == 'sliver' and rule == 'wigm':
        return [(dict(rule=rule, arithmetic='guarded', precision=2, guard=3), None), (dict(rule=rule, arithmetic='guarded', precision=3, guard=2), None),
                (dict(rule=rule, arithmetic='guarded', precision=2, guard=2, defeat_batch='zero'), None)]
    if shape == 'thirds' and rule == 'wigm':
        return [(dict(rule=rule, arithmetic='guarded', precision=3, guard=2, integer_quota=True), None),
                (dict(rule=rule, arithmetic='guarded', precision=2, guard=3, integer_quota=True), None),
                (dict(rule=rule, arithmetic='fixed', precision=3, integer_quota=True), None),
                (dict(rule=rule, arithmetic='rational', integer_quota=True), None)]
    if shape == 'neartie' and rule == 'wigm':
        return [(dict(rule=rule, arithmetic='guarded', precision=p, guard=g_), None) for p, g_ in ((3, 2), (2, 3), (4, 2))]
    if shape in ('sparse', 'hiddenpartner') and rule == 'wigm':
        return [(dict(rule=rule, arithmetic='fixed', precision=3, defeat_batch='zero'), None), (dict(rule=rule, arithmetic='guarded', precision=3, guard=2, defeat_batch='zero'), None)] + gen.configs(rule, rng)
    if shape != 'exact':
        return gen.configs(rule, rng, all_=all_, k=(3 if rule == 'wigm' else 2 if rule in ('meek', 'warren', 'meek-prf', 'qpq') else 1))
    if rule == 'wigm':
        return [(dict(rule=rule, arithmetic='fixed', precision=2), None), (dict(rule=rule, arithmetic='guarded', precision=2, guard=0), None)]
    if rule in ('meek', 'warren'):
        return [(dict(rule=rule, arithmetic='fixed', precision=2, omega=1), None)]
    if rule == 'meek-prf':
        return [(dict(rule=rule), (2, None, 1))]
    if rule == 'qpq':
        return [(dict(rule=rule), (2, 2, None))]
    return [(dict(rule=rule), (2, None, None))]


def liveness_stage(R, tier):
    "C01 termination as a temporal property: FairSpec => (counting ~> done), no state constraint"
    res = model.mc_run(model_configs(), nc=3, maxb=3 if tier == 'quick' else 4, maxm=1 if tier == 'quick' else 2, seatset=(1, 2), check=[], liveness=True,
                       timeout=900 if tier == 'quick' else 3000)
    R.add_tlc(res)
    bad = 'Temporal properties were violated' in res['out'] or 'is violated' in res['out']
    R.stage('liveness: FairSpec => Terminates', distinct_states=res['distinct'], wall_s=round(res['wall'], 1), violated=bad)
    if bad:
        raise vlib.Machinery('SPEC-DIVERGENCE or design defect: Terminates violated in Droop.tla:\n' + res['out'][-2500:])
    if 'Error:' in res['out']:
        raise vlib.Machinery('TLC error (liveness):\n' + res['out'][-2500:])


SHIPPING = [({'rule': 'wigm'}, None), ({'rule': 'meek'}, None), ({'rule': 'warren'}, None), ({'rule': 'meek-prf'}, None), ({'rule': 'qpq'}, None),
            ({'rule': 'wigm', 'arithmetic': 'fixed'}, None), ({'rule': 'meek', 'arithmetic': 'fixed'}, None)]


def shipping_stage(R, prop, tier, rng, known):
    """
    The shipping precisions (default guarded 18+9, fixed 9, meek-prf 9 places, qpq 9+9) exceed 32 bits.  C02/C04/C08 are judged on
    limb-encoded traces by spec/BigProps.tla; C01/C09/C18 on sign-only shadows by the ordinary Props.tla clauses.
    """
    if prop not in ('C01', 'C02', 'C04', 'C08', 'C09', 'C18'):
        return
    big = prop in ('C02', 'C04', 'C08')
    traces, meta = [], {}
    n = 18 if tier == 'quick' else 250
    tid = 0
    for i in range(n):
        pr = make_profile(rng, pick_shape(rng, MIX[prop]), prop)
        if pr['nc'] > 6 or len(pr['lines']) > 10:
            pr = gen.randprofile(rng, maxc=5, maxlines=7, wd=True)
        ship = SHIPPING
        if big and i % 3 == 2:
            # astronomically large electorates (beyond 2^53): integer arithmetic must stay exact
            f = rng.choice([10 ** 15, 3 * 10 ** 16 + 1, 2 ** 54 + 1])
            pr = dict(pr, lines=[(m * f + rng.randint(0, 3), r) for m, r in pr['lines']], eqlines=[])
            ship = SHIPPING + [({'rule': r}, None) for r in ('scotland', 'mpls', 'cfer', 'wigm-prf')] + [({'rule': 'wigm', 'arithmetic': 'integer'}, None)]
        blt = drive.mkblt(**pr)
        for opts, lp in ship:
            if opts['rule'] == 'qpq' and ship is not SHIPPING:
                continue
            if prop == 'C08' and drive.fam(opts['rule']) != 'meek':
                continue
            T = drive.run_count(blt, opts, want_ballots=(opts['rule'] == 'qpq'), budget=20)
            R.cov['evaluations'] += 1
            if T['outcome'] not in ('ok', 'exc') or 'nc' not in T:
                continue
            N = drive.to_big(T) if big else drive.to_shadow(T)
            if N is None:
                continue
            tid += 1
            N['id'] = tid
            N['fam'] = drive.fam(T['rule'])
            traces.append(N)
            meta[tid] = (blt, opts, T)
    if not traces:
        return
    verd = {}
    for lo in range(0, len(traces), 400):          # limb-encoded traces are bulky: small TLC batches
        v1, res = vlib.judge(traces[lo:lo + 400], [prop], workers=16, heap_mb=6144, module='TraceBigProps' if big else 'TraceProps')
        verd.update(v1)
        R.add_tlc(res)
    R.cov['traces_validated_against_impl'] += len(traces)
    nf = 0
    for i, fails in verd.items():
        blt, opts, T = meta[i]
        real = []
        for (p, cl, k) in fails:
            if cl.startswith('KNOWN_') and cl[6:] in known:
                R.known_finding(cl[6:], known[cl[6:]]['text'])
                continue
            if p == 'C01' and cl == 'outcome' and 'F2' in known and f2_match(T):
                continue
            real.append((p, cl, k))
        if real:
            nf += 1
            p, cl, k = real[0]
            a = T['acts'][k - 1] if 0 < k <= len(T['acts']) else {}
            R.violation('%s clause %s at action %d (%s) rule=%s at its shipping precision, opts=%s' % (p, cl, k, a.get('msg', T.get('exc', '')), T['rule'], opts),
                        dict(blt=blt, options=opts, clause=cl, action_index=k, all_failed_clauses=real))
    R.stage('shipping-precision traces (%s)' % ('limb-encoded, BigProps.tla' if big else 'sign shadows, Props.tla'), traces=len(traces), failing=nf)


def check_counts(prop, tier):
    R = vlib.Result(prop, tier)
    rng = random.Random(vlib.seed() * 1000003 + int(prop[1:]))
    known = known_ids()
    rules = RULESET.get(prop, drive.RULES)
    nprof = NPROFILES[tier]
    model_stage(R, prop, tier, rules=rules, export_mod=(97 if tier == 'quick' else 397), known=known)
    if prop == 'C01':
        liveness_stage(R, tier)
    traces, meta = [], {}
    hist = collections.Counter()
    byrule = collections.Counter()
    skipped = collections.Counter()
    tid = 0
    inputs = set()

    def flush(workers=16, heap_mb=2048):
        if not traces:
            return
        verd, res = vlib.judge(traces, [prop], workers=workers, heap_mb=heap_mb)
        R.add_tlc(res)
        R.cov['traces_validated_against_impl'] += len(traces)
        for i, fails in verd.items():
            blt, opts, lp, T = meta[i]
            real = []
            for (p, cl, k) in fails:
                if cl.startswith('KNOWN_'):
                    fid = cl[6:]
                    if fid in known:
                        R.known_finding(fid, known[fid]['text'])
                        continue
                if p == 'C01' and cl == 'outcome' and 'F2' in known and f2_match(T):
                    R.known_finding('F2', known['F2']['text'])
                    continue
                if p == 'C01' and cl == 'outcome' and 'F25' in known and f25_match(T):
                    R.known_finding('F25', known['F25']['text'])
                    continue
                if p == 'C05' and 'F11' in known and f11_match(T):
                    R.known_finding('F11', known['F11']['text'])
                    continue
                real.append((p, cl, k))
            if real:
                p, cl, k = real[0]
                a = T['acts'][k - 1] if 0 < k <= len(T['acts']) else {}
                R.violation('%s clause %s at action %d (%s) rule=%s opts=%s' % (p, cl, k, a.get('msg', T.get('exc', '')), T['rule'], opts),
                            dict(blt=blt, options=opts, lowprec=lp, clause=cl, action_index=k, action=a.get('msg'),
                                 all_failed_clauses=real, outcome=T['outcome'], exc=T['exc'],
                                 rerun='cd /verif && ./run %s --replay <this file>' % prop))
        del traces[:]
        meta.clear()

    # the witness input of every listed finding and of every repaired defect of this property is counted again on every run:
    # a listed finding prints its KNOWN-FINDING line, a repaired defect must stay repaired
    nwit = 0
    for e in vlib.load_known():
        w = e.get('witness')
        if not w or e.get('property') != prop:
            continue
        lp = tuple(w['lowprec']) if w.get('lowprec') else None
        T = drive.run_count(w['blt'], dict(w['options']), lowprec=lp, iters=(prop == 'C08'), want_ballots=(prop in ('C02', 'C06', 'C01')))
        R.cov['evaluations'] += 1
        Nt = drive.to_native(T) if T['outcome'] not in ('reject', 'budget') else None
        if Nt is None:
            R.violation('%s: the witness input of %s (%s) can no longer be counted: %s %s' % (prop, e['id'], e['kind'], T['outcome'], T['exc']),
                        dict(blt=w['blt'], options=w['options'], lowprec=w.get('lowprec')))
            continue
        tid += 1
        nwit += 1
        Nt['id'] = tid
        Nt['fam'] = drive.fam(T['rule'])
        traces.append(Nt)
        meta[tid] = (w['blt'], dict(w['options']), lp, T)
    R.cov['witness_inputs_of_listed_findings_and_repairs'] = nwit
    extra_profiles = []
    if prop in ('C01', 'C02', 'C06'):
        extra_profiles = [('manycands', gen.manycandsprofile(rng)) for _ in range(1 if tier == 'quick' else 6)]
    for i in range(nprof + len(extra_profiles)):
        if i >= nprof:
            flush()                          # the 260-candidate traces are judged on their own (few workers, large heap)
            shape, pr = extra_profiles[i - nprof]
        else:
            shape = pick_shape(rng, MIX[prop])
            pr = make_profile(rng, shape, prop)
        if i >= nprof:
            pass
        elif (prop == 'C08' and rng.random() < 0.4) or (prop == 'C02' and rng.random() < 0.2) or (prop == 'C04' and rng.random() < 0.12):
            pr = gen.randprofile(rng, wd=True, eq=True, maxc=6, maxlines=8, wdmin=rng.choice([0, 0, 2]))
        if prop == 'C18' and i % 3 == 0 and pr['nc'] >= 3:
            # a ballot file may name two candidates alike: every one of them still has his own line in the record
            nm = [drive.cname(c) for c in range(1, pr['nc'] + 1)]
            a, b = rng.sample(range(pr['nc']), 2)
            nm[a] = nm[b] = 'John Smith'
            if pr['nc'] >= 5 and rng.random() < 0.5:
                c2 = rng.choice([x for x in range(pr['nc']) if x not in (a, b)])
                nm[c2] = 'John Smith'
            pr = dict(pr, names=nm)
        blt = drive.mkblt(**pr)
        for rule in rules:
            if pr.get('eqlines') and rule not in ('meek', 'warren') and prop != 'C04':
                continue
            if shape == 'manycands' and rule not in ('cfer', 'cfer-batch', 'wigm-prf-batch', 'mpls', 'wigm'):
                continue
            for opts, lp in configs_for(rule, rng, shape, all_=(tier == 'thorough' and i % 5 == 0)):
                budget = 10 if shape != 'manycands' else 40
                T = drive.run_count(blt, opts, lowprec=lp, iters=(prop == 'C08'), budget=budget,
                                    want_ballots=(prop in ('C02', 'C06', 'C01')), denote=pr)
                R.cov['evaluations'] += 1
                if T['outcome'] == 'reject':
                    skipped['rejected:' + T['exc'][:40]] += 1
                    continue
                if prop == 'C01' and T.get('wd') is not None and [c for c in range(1, pr['nc'] + 1) if T['wd'][c - 1]] != sorted(pr['withdrawn']):
                    # the oracle for `withdrawn' is the file, not what the library read back from it
                    R.violation('C01: the election treats %s as withdrawn, the file withdraws %s (rule %s)' % (
                        [c for c in range(1, pr['nc'] + 1) if T['wd'][c - 1]], sorted(pr['withdrawn']), rule), dict(blt=blt, options=opts, lowprec=lp))
                    continue
                if T['outcome'] == 'budget':
                    if rule in ('meek', 'warren') and opts.get('arithmetic') == 'rational':
                        skipped['budget (meek/warren rational: not explored)'] += 1
                        continue
                    # a busy machine is not a hanging count: the first overruns of a run are repeated with a much larger budget;
                    # once one of them is confirmed (the count really does not end) later overruns are reported at once
                    if skipped['time budget overrun confirmed with 12x the budget'] == 0:
                        T = drive.run_count(blt, opts, lowprec=lp, iters=(prop == 'C08'), budget=budget * 12,
                                            want_ballots=(prop in ('C02', 'C06', 'C01')), denote=pr)
                        skipped['first attempt exceeded the time budget (re-run with 12x)'] += 1
                        if T['outcome'] == 'budget':
                            skipped['time budget overrun confirmed with 12x the budget'] += 1
                Nt = drive.to_native(T)
                if Nt is None:
                    skipped['not encodable in 32-bit integers (%s %s)' % (rule, T.get('kind'))] += 1
                    continue
                tid += 1
                Nt['id'] = tid
                Nt['fam'] = drive.fam(T['rule'])
                traces.append(Nt)
                meta[tid] = (blt, opts, lp, T)
                inputs.add((blt, json.dumps(opts, sort_keys=True), str(lp)))
                byrule[T['rule']] += 1
                for a in T['acts']:
                    hist[a['mc']] += 1
                if tid % 97 == 1:
                    R.sample(dict(blt=blt, options=opts, lowprec=lp, actions=[a['msg'] for a in T['acts']][:12]))
                if len(traces) >= BATCH:
                    flush()
        if shape == 'manycands':
            flush(workers=3, heap_mb=8192)
    if prop == 'C02':
        # equal-ranked first preferences under exact arithmetic (tiny profiles: rational Meek is slow)
        for j in range(6 if tier == 'quick' else 60):
            k3 = rng.choice([2, 3, 3])
            grp = rng.sample([1, 2, 3], k3)
            pr = dict(nc=3, seats=1, lines=[(rng.randint(1, 2), [rng.randint(1, 3)]), (1, rng.sample([1, 2, 3], 2))], tie=[1, 2, 3], withdrawn=[], undeclared=[],
                      eqlines=[(rng.randint(1, 3), [grp] + ([[c for c in (1, 2, 3) if c not in grp]] if k3 < 3 else []))])
            if sum(m for m, _ in pr['lines']) + sum(m for m, _ in pr['eqlines']) < 3:
                pr['lines'].append((2, [1, 2]))
            blt = drive.mkblt(**pr)
            for rule in ('meek', 'warren'):
                opts = dict(rule=rule, arithmetic='rational', omega=1)
                T = drive.run_count(blt, opts, budget=5, want_ballots=False)
                R.cov['evaluations'] += 1
                if T['outcome'] != 'ok':
                    skipped['rational equal-rank: ' + T['outcome']] += 1
                    continue
                Nt = drive.to_native(T)
                if Nt is None:
                    skipped['rational equal-rank: not encodable'] += 1
                    continue
                tid += 1
                Nt['id'] = tid
                Nt['fam'] = 'meek'
                traces.append(Nt)
                meta[tid] = (blt, opts, None, T)
                byrule[rule + ':rational-eq'] += 1
    flush()
    shipping_stage(R, prop, tier, rng, known)
    if prop == 'C18':
        render_stage(R, tier)
    if prop == 'C07':
        model_meta_stage(R, prop, tier)
        pair_stage(R, prop, pairs.gen_c07e(rng, 30 if tier == 'quick' else 500, drive.RULES), known)
    R.cov['distinct_nontrivial'] += len(inputs)
    R.cov['rule'] = ('profiles from shaped generators %s (seeded), every rule name in %s x arithmetic configurations of gen.py; '
                     'a case = one (ballot file, options) pair counted by the real code; its recorded trace is judged by '
                     'TLC evaluating the %s operators of spec/Props.tla on every action' % (MIX[prop], list(rules), prop))
    R.cov['per_rule'] = dict(byrule)
    R.cov['action_classes_seen'] = dict(hist)
    R.cov['skipped'] = dict(skipped)
    R.assumptions += ['trace recording by harness/drive.py (instance wrappers around Election.logAction and Candidate methods)',
                      'TLC and the CommunityModules Json reader',
                      'numbers above 2^29 are not encodable: such traces are counted under skipped, not judged']
    return R.finish()



# ----------------------------------------------------------------------------------------
#  C03: statutory rules carry out their published procedure (conformance to the rule specs)
# ----------------------------------------------------------------------------------------
C03_RULES = drive.STATUTORY + ['wigm']


def check_c03(tier):
    prop = 'C03'
    R = vlib.Result(prop, tier)
    rng = random.Random(vlib.seed() * 1000003 + 3)
    known = known_ids()
    devs = [d for d in model.ALL_DEVS if model.DEV_FINDING[d] in known]
    # (M) + (S->C): exhaustive small scope, every exported case replayed, all fields compared
    model_stage(R, prop, tier, rules=drive.STATUTORY, export_mod=(11 if tier == 'quick' else 89), c03=True, known=known)
    # (C->S): lock-step conformance of recorded traces on the random scope
    nprof = 150 if tier == 'quick' else 2500
    traces, meta = [], {}
    byrule = collections.Counter()
    skipped = collections.Counter()
    devuse = collections.Counter()
    tid = 0

    def flush():
        if not traces:
            return
        out, res = vlib.conform(traces, devs, workers=16)
        R.add_tlc(res)
        R.cov['traces_validated_against_impl'] += len(traces)
        for i, v in out.items():
            blt, opts, lp, T = meta[i]
            if v['verdict'] == 'ACCEPT':
                for d in v['devs']:
                    fid = model.DEV_FINDING.get(d)
                    devuse[d] += 1
                    if fid in known:
                        R.known_finding(fid, known[fid]['text'])
                    else:
                        R.violation('C03: deviation arm %s used but not a listed finding' % d, dict(blt=blt, options=opts))
                if v['warn']:
                    R.cov.setdefault('conformance_warnings', []).append(dict(rule=T['rule'], fields=v['warn'], blt=blt))
            else:
                a = T['acts'][v['at'] - 1] if 0 < v['at'] <= len(T['acts']) else {}
                R.violation('C03: %s (options %s) is not a behaviour of the %s specification: action %d (%s) field %s' % (
                    T['rule'], opts, 'wigm-prf' if T['rule'] == 'wigm' else T['rule'], v['at'], a.get('msg', ''), v['field']),
                    dict(blt=blt, options=opts, lowprec=lp, action_index=v['at'], field=v['field'], action=a.get('msg'),
                         actions=[x['msg'] for x in T['acts']]))
        del traces[:]
        meta.clear()

    for i in range(nprof):
        shape = pick_shape(rng, [('random', 4), ('tie', 2), ('prior', 2), ('reversal', 2), ('surplustie', 2), ('writein', 2), ('quota', 2), ('exact', 2), ('chain', 2), ('coalition', 1), ('bullet', 1), ('sparse', 2), ('bigm', 2), ('unanimous', 1)])
        pr = make_profile(rng, shape, 'C01')
        if shape == 'random' and rng.random() < 0.5:
            pr = gen.randprofile(rng, wd=True, und=True, maxc=5, maxlines=7)
        blt = drive.mkblt(**pr)
        for rule in C03_RULES:
            if rule == 'wigm':
                cfgs = [(dict(rule='wigm', arithmetic='fixed', precision=4 if shape != 'exact' else 2), None)]
            elif rule == 'meek-prf' and shape != 'exact':
                cfgs = [(dict(rule=rule), lp_) for lp_ in gen.LOWPREC['meek-prf']]
            else:
                cfgs = configs_for(rule, rng, shape)
            for opts, lp in cfgs:
                T = drive.run_count(blt, opts, lowprec=lp)
                R.cov['evaluations'] += 1
                if T['outcome'] == 'reject':
                    skipped['rejected'] += 1
                    continue
                if T['outcome'] != 'ok' and not (T['outcome'] == 'exc' and T['acts'] and T['acts'][-1]['tag'] == 'end'):
                    skipped['count failed: ' + T['exc'][:30]] += 1
                    continue
                Nt = drive.to_native(T)
                if Nt is None:
                    skipped['not encodable'] += 1
                    continue
                tid += 1
                Nt['id'] = tid
                Nt['fam'] = drive.fam(T['rule'])
                Nt['specrule'] = 'wigm-prf' if rule == 'wigm' else T['rule']
                traces.append(Nt)
                meta[tid] = (blt, opts, lp, T)
                byrule[rule] += 1
                if tid % 173 == 1:
                    R.sample(dict(blt=blt, options=opts, lowprec=lp, actions=[a['msg'] for a in T['acts']][:14]))
                if len(traces) >= BATCH:
                    flush()
    flush()
    R.cov['distinct_nontrivial'] = tid
    R.cov['per_rule'] = dict(byrule)
    R.cov['deviation_arms_used'] = dict(devuse)
    R.cov['skipped'] = dict(skipped)
    R.cov['rule'] = ('(M) TLC enumerates every profile of the bounded scope for the statutory rule specifications (clause-by-clause TLA+ '
                     'transcriptions in spec/Rule*.tla at statutory precision p4/p5; meek-prf and qpq at reduced precision); (S->C) exported '
                     'cases replayed into the code, all fields compared; (C->S) recorded traces of seeded random/shaped profiles must be '
                     'behaviours of the specification in lock-step (spec/TraceCount.tla); wigm fixed p4 is validated against the wigm-prf spec')
    R.assumptions += ['the TLA+ transcription of the rule texts (DESIGN 9)', 'meek-prf (p9) and qpq (9+9) are validated at reduced precision '
                      'through harness-side replacement of the statutory constants; the count() body executed is the repository\'s',
                      'harness/drive.py trace recording; TLC']
    return R.finish()


# ----------------------------------------------------------------------------------------
#  pair properties: C10, C11, C13(b,c), C17 (and C07(e) inside C07)
# ----------------------------------------------------------------------------------------
def pair_stage(R, prop, items, known):
    "items: list of (pair-or-None-or-str, info)"
    batch, meta = [], {}
    pid = 0
    stats = collections.Counter()
    for p, info in items:
        R.cov['evaluations'] += 1
        if p is None:
            stats['not encodable / not explored'] += 1
            continue
        if p == 'reject-mismatch':
            R.violation('%s: one member of the pair is rejected, the other is not: %s' % (prop, str(info[3:])[:200]),
                        dict(blt_a=info[0], blt_b=info[1], options=info[2]))
            continue
        pid += 1
        p['id'] = pid
        batch.append(p)
        meta[pid] = info
    for lo in range(0, len(batch), 600):
        chunk = batch[lo:lo + 600]
        out, res = vlib.judge_pairs(chunk, workers=16)
        R.add_tlc(res)
        R.cov['traces_validated_against_impl'] += 2 * len(chunk)
        for p in chunk:
            vac, fails = out[p['id']]
            stats[p['rel'] + (':vacuous' if vac else ':checked')] += 1
            info = meta[p['id']]
            real = []
            for cl, k in fails:
                if cl.startswith('KNOWN_') and cl[6:] in known:
                    R.known_finding(cl[6:], known[cl[6:]]['text'])
                else:
                    real.append((cl, k))
            if real:
                cl, k = real[0]
                R.violation('%s relation %s fails: %s at action %d (rule %s)' % (prop, p['rel'], cl, k, p['a']['rule']),
                            dict(relation=p['rel'], blt_a=info[0], blt_b=info[1], options=info[2], lowprec=info[3] if len(info) > 3 else None, failed=real))
            if p['id'] % 53 == 1:
                R.sample(dict(relation=p['rel'], blt_a=info[0], blt_b=info[1], options=info[2]))
    for k, v in stats.items():
        R.cov.setdefault('pairs', {})
        R.cov['pairs'][k] = R.cov['pairs'].get(k, 0) + v
    R.cov['distinct_nontrivial'] += sum(v for k, v in stats.items() if k.endswith(':checked'))


def check_arith(prop, tier):
    R = vlib.Result(prop, tier)
    num_model_stage(R, prop, tier)
    arith_stage(R, prop, tier)
    R.cov['rule'] = ('operand grid (0, +-1, +-scale+-1, tolerance boundaries geps-1/geps/geps+1, thirds, seeded random to 4*10^4) x precisions 0..4 x '
                     'guards x display settings x every operator and rounding mode of the real classes; each call record is judged by the relational '
                     'laws of spec/Num.tla (floor toward minus infinity, +1 iff inexact and rounding up, exact integer ops, comparison law, result class, printed form)')
    R.assumptions += ['operands are bounded so that products fit 32-bit TLC integers; magnitudes beyond that are not judged by TLC in this check']
    return R.finish()


def num_model_stage(R, prop, tier):
    "(M) MCNum.tla: the specification's own arithmetic operators satisfy the laws of Num.tla on an operand grid"
    cfg = 'INIT Init\nNEXT Next\nINVARIANT SlowAgrees\nINVARIANT SlowRelation\nINVARIANT FixedOps\nINVARIANT Comparisons\n'
    res = vlib.tlc('MCNum', cfg, workers=16, heap_mb=2048, timeout=900)
    R.add_tlc(res)
    viol = re.search(r'Invariant (\w+) is violated', res['out'])
    R.stage('model-check MCNum.tla (oracle arithmetic vs the laws)', distinct_states=res['distinct'], wall_s=round(res['wall'], 1),
            invariant_violated=viol.group(1) if viol else None)
    if viol or 'Error:' in res['out']:
        raise vlib.Machinery('MCNum.tla: the specification arithmetic violates its own law (%s):\n%s' % (viol.group(1) if viol else 'error', res['out'][-2000:]))


def check_pairs(prop, tier):
    R = vlib.Result(prop, tier)
    rng = random.Random(vlib.seed() * 1000003 + int(prop[1:]))
    known = known_ids()
    n = 40 if tier == 'quick' else 600
    if prop == 'C10':
        model_meta_stage(R, prop, tier)
        pair_stage(R, prop, pairs.gen_c10(rng, 4 * n, drive.RULES), known)
        R.cov['rule'] = 'pairs (canonical file, another presentation of the same ballots: permuted/split/merged lines, comments, layout, nicknames) x all rules; TLC evaluates SameHistory (Pairs.tla) plus the byte-equality observations'
    elif prop == 'C11':
        model_meta_stage(R, prop, tier)
        items = pairs.gen_c11(rng, 2 * n, drive.RULES)
        for e in vlib.load_known():          # the witness pair of every listed finding of this property is judged on every run
            w = e.get('witness_pair')
            if w and e.get('property') == prop:
                lp = tuple(w['lowprec']) if w.get('lowprec') else None
                A, B = pairs.run2(w['blt_a'], dict(w['options']), lp, w['blt_b'], dict(w['options']), lp)
                items.append((pairs.mkpair(w['rel'], A, B, nmap=w['map']), (w['blt_a'], w['blt_b'], w['options'], lp)))
        pair_stage(R, prop, items, known)
        R.cov['rule'] = 'pairs (profile, profile with candidate ids permuted) -> FinalDiff; (profile with withdrawn, profile with them deleted) -> SameByName; all rules'
    elif prop == 'C13':
        num_model_stage(R, prop, tier)
        arith_stage(R, prop, tier)
        pair_stage(R, prop, pairs.gen_c13b(rng, 2 * n), known)
        pair_stage(R, prop, pairs.gen_c13c(rng, 2 * n), known)
        R.cov['rule'] = 'comparison law on the operand grid (TraceArith); pairs guarded g=0 vs fixed -> SameHistory; guarded vs rational -> QuasiDiff when the statistics are quiet'
    elif prop == 'C17':
        options_stage(R, prop, tier)
        pair_stage(R, prop, pairs.gen_c17(rng, n), known)
        R.cov['rule'] = 'option lattice model (Options.tla) replayed; pairs (statutory rule unperturbed, perturbed from cmd and file layers) -> SameHistory + identical dump/report body'
    R.assumptions += ['harness/drive.py trace recording', 'byte equality of renderings is a harness observation passed to the TLA+ relation']
    return R.finish()


META_LEMMA = {'C07': [('TieIndependent', 'C07e', {})], 'C10': [('PresentationIndependent', 'C10', {})],
              'C11': [('Neutral', 'C11a', {}), ('WithdrawnAbsent', 'C11b', dict(nc=4, ties=[(1, 2, 3, 4), (4, 2, 1, 3)], wds=((2,), (4,), (1, 3))))]}


SIM_LEMMA_SCOPE = dict(nc=4, maxb=40, maxm=15, seatset=(1, 2, 3), ties=[(1, 2, 3, 4), (4, 2, 1, 3), (3, 1, 4, 2)], wds=((), (2,), (1, 4)))


def model_meta_stage(R, prop, tier):
    for lemma, rel, over in META_LEMMA[prop]:
        model_meta_lemma(R, prop, tier, lemma, rel, over)
        # the same lemma on random elections of a scope too large to enumerate (TLC simulation, all 18 configurations)
        sim = dict(SIM_LEMMA_SCOPE)
        if lemma == 'WithdrawnAbsent':
            sim['wds'] = ((2,), (1, 4), (3,))
        model_meta_lemma(R, prop, tier, lemma, rel, sim, simulate='num=%d' % (120 if tier == 'quick' else 2500))


def model_meta_lemma(R, prop, tier, lemma, rel, over, simulate=None):
    """
    (M) the metamorphic lemma at design level: the specification's count as a function (`Run') is evaluated on both members of
    every pair of the bounded scope inside one TLC invariant.  A counterexample is replayed into the real code as a pair.
    """
    cfgs = [model.STATUTORY_CFG['wigm-prf'], model.STATUTORY_CFG['scotland'], model.STATUTORY_CFG['cfer-batch'], model.STATUTORY_CFG['mpls'],
            model.cfgrec('meek', p=3, omega10=2, batch='safe'), model.cfgrec('qpq', kind='guarded', p=3, g=2),
            model.cfgrec('wigm', p=2, batch='zero')]
    if tier == 'thorough' or simulate:
        cfgs = model_configs()
    sc = dict(nc=3, maxb=3 if tier == 'quick' else 4, maxm=2, seatset=(1, 2), ties=[(1, 2, 3), (3, 1, 2)])
    sc.update(over)
    res = model.mc_run(cfgs, check=[], lemmas=[lemma], timeout=600 if tier == 'quick' else 3000, simulate=simulate,
                       extra=(['-depth', '60', '-seed', str(vlib.seed() * 104729 + 5)] if simulate else []), **sc)
    R.add_tlc(res)
    iv = model.invariant_violation(res['out'])
    if simulate:
        m = re.search(r'(\d+) states checked, (\d+) traces generated', res['out'])
        R.stage('simulate lemma ' + lemma, scope=str(sc), traces=int(m.group(2)) if m else None, wall_s=round(res['wall'], 1),
                timed_out=bool(res.get('timeout')), invariant_violated=iv[0] if iv else None)
    else:
        R.stage('model-check lemma ' + lemma, scope=str(sc), configs=[c['rule'] for c in cfgs], distinct_states=res['distinct'],
                wall_s=round(res['wall'], 1), invariant_violated=iv[0] if iv else None)
    if iv:
        pl = [p for k, p in model.fails_of(res['out']) if k == 'METAFAIL']
        if not pl:
            raise vlib.Machinery('lemma %s violated without payload:\n%s' % (lemma, res['out'][-2000:]))
        p = pl[0]
        b1, o1, l1 = model.header_to_input(p['h'])
        b2, o2, l2 = model.header_to_input(p['h2'])
        A, B = pairs.run2(b1, o1, l1, b2, o2, l2)
        pp = pairs.mkpair(rel, A, B, nmap=p['map'], obs=pairs.text_obs(A, B))
        pp['id'] = 1
        out, _ = vlib.judge_pairs([pp], workers=1)
        if out[1][1]:
            R.violation('%s: design-level counterexample of lemma %s reproduced on the real code (rule %s): %s' % (prop, lemma, p['h']['rule'], out[1][1][:3]),
                        dict(blt_a=b1, blt_b=b2, options=o1, lowprec=l1, failed=out[1][1]))
        else:
            raise vlib.Machinery('SPEC-DIVERGENCE: lemma %s fails in the specification for rule %s but the real code satisfies it: %s' % (lemma, p['h']['rule'], json.dumps(p['diff'])[:300]))
    elif 'Error:' in res['out']:
        raise vlib.Machinery('TLC error:\n' + res['out'][-3000:])


def arith_stage(R, prop, tier):
    "calls of the real arithmetic classes judged by the laws of Num.tla; failures are attributed by prefix"
    rng = random.Random(vlib.seed() * 7919 + 12)
    known = known_ids()
    calls = arith.all_calls(rng, tier)
    byid = {c['id']: c for c in calls}
    nf = 0
    for lo in range(0, len(calls), 40000):
        chunk = calls[lo:lo + 40000]
        out, res = vlib.judge_arith(chunk, workers=16)
        R.add_tlc(res)
        for i, names in out.items():
            c = byid[i]
            for nm in names:
                if not nm.startswith(prop + ':'):
                    continue
                what = nm.split(':', 1)[1]
                if what.startswith('KNOWN_') and what[6:] in known:
                    R.known_finding(what[6:], known[what[6:]]['text'])
                    continue
                nf += 1
                R.violation('%s law %s fails for %s p=%s g=%s d=%s op=%s round=%s a=%s b=%s c=%s result=%s' % (
                    prop, what, c['cls'], c['p'], c['g'], c['d'], c['op'], c['rnd'], c['a'], c['b'], c['c'], c['r'] if c['op'] != 'str' else c.get('str', c.get('pu'))),
                    dict(call=c))
    mine = [c for c in calls if (prop == 'C14') == (c['op'] in ('str', 'strq')) and (prop != 'C13' or c['cls'] == 'guarded') and (prop != 'C12' or c['cls'] != 'guarded')]
    R.cov['evaluations'] += len(mine)
    R.cov['traces_validated_against_impl'] += len(mine)
    R.cov['distinct_nontrivial'] += len(set((c['cls'], c['p'], c['g'], c['d'], c['op'], c['rnd'], str(c['a']), str(c['b']), str(c['c'])) for c in mine))
    ops = collections.Counter((c['cls'], c['op'], c['rnd']) for c in mine)
    R.cov['big_operand_calls'] = sum(1 for c in mine if c.get('big'))
    R.cov['calls_by_class_op_round'] = {'%s.%s(%s)' % k: v for k, v in sorted(ops.items())}
    for c in mine[:3] + mine[len(mine) // 2:len(mine) // 2 + 2]:
        R.sample({k: c.get(k) for k in ('big', 'cls', 'p', 'g', 'd', 'op', 'rnd', 'a', 'b', 'c', 'r', 'str', 'flags')})
    R.stage('arithmetic calls judged by Num.tla', calls=len(calls), relevant=len(mine), failures=nf)


CLI_TOKENS = ['wigm', 'meek-prf', 'fixed', 'rational', 'report', 'dump', 'json', 'a.blt', 'b.blt', 'precision=4', 'precision=07', 'display=2',
              'integer_quota=TRUE', 'integer_quota=no', 'defeat_batch=zero', 'arithmetic=guarded', 'rule=scotland', 'omega=', 'x=a=b', 'Yes', 'report=false']


def cli_stage(R, tier):
    "(M)+(S->C) CliArgs.tla: every argument list of up to 3 tokens parsed by the specification and by the real Options.parse"
    import tempfile, shutil
    from droop.options import Options
    from droop.common import UsageError
    feats = []
    for t in CLI_TOKENS:
        parts = t.split('=')
        feats.append(dict(t=t, bare=len(parts) == 1, key=parts[0], val=parts[1] if len(parts) > 1 else '', low=(parts[1].lower() if len(parts) > 1 else '')))
    tmp = tempfile.mkdtemp(prefix='vcli-')
    try:
        path = os.path.join(tmp, 'alpha.json')
        json.dump(feats, open(path, 'w'))
        cfg = 'INIT Init\nNEXT Next\nINVARIANT LastWins\nINVARIANT Exported\nCONSTANTS\n MAXLEN = 3\n EXPORT = %d\n' % (3 if tier == 'quick' else 1)
        res = vlib.tlc('CliArgs', cfg, env={'ALPHA_FILE': path}, workers=8, heap_mb=2048, timeout=900)
    finally:
        shutil.rmtree(tmp, ignore_errors=True)
    R.add_tlc(res)
    viol = re.search(r'Invariant (\w+) is violated', res['out'])
    if viol or 'Error:' in res['out']:
        raise vlib.Machinery('CliArgs.tla: %s\n%s' % (viol.group(1) if viol else 'TLC error', res['out'][-2000:]))
    cases = [json.loads(m.group(1).replace('\\"', '"').replace('\\\\', '\\')) for m in re.finditer(r'^"ARGCASE (.*)"\s*$', res['out'], re.M)]
    nd = 0
    for case in cases:
        R.cov['traces_validated_against_impl'] += 1
        try:
            got = Options.parse(list(case['args']))
            err = ''
        except UsageError:
            got, err = None, 'UsageError'
        want = case['d'] if isinstance(case['d'], dict) else {}
        if err != case['err'] or (not err and {k: optreplay.norm(v) for k, v in got.items()} != want):
            nd += 1
            R.violation('C17: command-line arguments %s parse as %s, the specification of Options.parse gives %s %s' % (case['args'], got if not err else err, want, case['err']),
                        dict(args=case['args'], observed=str(got), expected=want))
    R.stage('CliArgs.tla: argument lists parsed by spec and by Options.parse', distinct_states=res['distinct'], cases=len(cases), differences=nd)


def main_options_stage(R, tier):
    "the command-line driver: the report printed by Droop.main names exactly the unused / overridden options of the option model"
    import tempfile, importlib, io, contextlib
    Droop = importlib.import_module('Droop')
    fd, pth = tempfile.mkstemp(prefix='vopt-', suffix='.blt')
    n = 0
    try:
        with os.fdopen(fd, 'w') as fh:
            fh.write(optreplay.BLT % '[droop precision=3 colour=red]')
        for rule in drive.RULES:
            for extra in ({}, {'colour': 'blue'}, {'omega': 3, 'dump': True}, {'guard': 2, 'json': True, 'dump': True}, {'arithmetic': 'fixed', 'display': 1, 'json': True}):
                opts = dict(extra, rule=rule, path=pth)
                try:
                    with contextlib.redirect_stdout(io.StringIO()):
                        out = Droop.main(dict(opts))
                    E = drive.Election(drive.ElectionProfile(path=pth), {k: v for k, v in opts.items() if k not in ('dump', 'json')})
                except Exception:
                    continue
                n += 1
                R.cov['traces_validated_against_impl'] += 1

                def listed(prefix):
                    for l in out.split('\n'):
                        if l.startswith(prefix):
                            return sorted(l[len(prefix):].split(', '))
                    return []
                want_unused = sorted(set(E.options.unused()) - {'dump', 'json', 'report'})
                if listed('\tUnused options: ') != want_unused or listed('\tOverridden options: ') != E.options.overrides():
                    R.violation('C17: Droop.main report header for %s: unused %s (expected %s), overridden %s (expected %s)' % (
                        opts, listed('\tUnused options: '), want_unused, listed('\tOverridden options: '), E.options.overrides()), dict(options={k: str(v) for k, v in opts.items()}))
        # the rule named by the ballot file alone (no rule from the caller): the driver counts exactly what the library counts
        for rule in drive.RULES:
            with open(pth, 'w') as fh:
                fh.write(optreplay.BLT % ('[droop rule=%s]' % rule))
            try:
                E = drive.Election(drive.ElectionProfile(path=pth), {})
                with contextlib.redirect_stdout(io.StringIO()):
                    E.count()
                want = E.report() + E.dump()
            except Exception:
                continue
            try:
                with contextlib.redirect_stdout(io.StringIO()):
                    out = Droop.main(dict(path=pth, dump=True))
            except Exception as e:
                out = 'EXC ' + type(e).__name__
            n += 1
            R.cov['traces_validated_against_impl'] += 1
            if out != want:
                got_rule = next((l for l in out.split('\n') if l.startswith('\tRule:')), out[:60])
                R.violation('C17: Droop.main with the rule named only in the ballot file ([droop rule=%s]) does not report the count of that rule: %s' % (rule, got_rule.strip()),
                            dict(options=dict(path='<file with [droop rule=%s]>' % rule, dump=True)))
    finally:
        os.unlink(pth)
    R.stage('Droop.main report header vs option layers', runs=n)


OPT_CFG = ('INIT Init\nNEXT Next\nINVARIANT StatutoryImmune\nINVARIANT Precedence\nINVARIANT Reported\nINVARIANT RuleChosen\nINVARIANT Exported\nCONSTANTS\n'
           ' RULESET = {%s}\n MAXACTIVE = %d\n VARMAX = %d\n EXPORT = %d\n')


def options_stage(R, prop, tier):
    "(M) the option lattice of Options.tla, all rules; (S->C) exported cases replayed into Election.__init__"
    rules = ', '.join('"%s"' % r for r in drive.RULES)
    res = vlib.tlc('Options', OPT_CFG % (rules, 2, 1 if tier == 'quick' else 2, 3 if tier == 'quick' else 1), workers=8, heap_mb=3072, timeout=1500)
    R.add_tlc(res)
    viol = re.search(r'Invariant (\w+) is violated', res['out'])
    R.stage('model-check Options.tla', distinct_states=res['distinct'], wall_s=round(res['wall'], 1), invariant_violated=viol.group(1) if viol else None)
    if viol:
        raise vlib.Machinery('Options.tla: invariant %s violated in the specification itself (SPEC-DIVERGENCE to be triaged):\n%s' % (viol.group(1), res['out'][-2000:]))
    if 'Error:' in res['out']:
        raise vlib.Machinery('TLC error in Options.tla:\n' + res['out'][-2500:])
    cli_stage(R, tier)
    main_options_stage(R, tier)
    cases = optreplay.cases_of(res['out'])
    nd = 0
    for case in cases:
        diffs, blt_, cmd = optreplay.replay(case)
        R.cov['traces_validated_against_impl'] += 1
        R.cov['evaluations'] += 1
        if diffs:
            nd += 1
            R.violation('C17: rule %s cmd=%s file=%s preset defaults=%s: %s expected %s, observed %s' % (case['rule'], case['cmd'], case['file'], case.get('pre'), diffs[0][0], diffs[0][1], diffs[0][2]),
                        dict(blt=blt_, options=cmd, differences=diffs, case=case))
    R.stage('spec->code replay of option cases', cases=len(cases), differences=nd)
    R.cov['distinct_nontrivial'] += len(cases)
    if cases:
        R.sample(dict(kind='option case', rule=cases[0]['rule'], cmd=cases[0]['cmd'], file=cases[0]['file'], effective=cases[0]['effective']))


# ----------------------------------------------------------------------------------------
#  C20: independence from process history
# ----------------------------------------------------------------------------------------
def check_c20(tier):
    prop = 'C20'
    R = vlib.Result(prop, tier)
    rng = random.Random(vlib.seed() * 1000003 + 20)
    known = known_ids()
    class_state_stage(R, prop, tier)
    H = [(history.BLTS[i % len(history.BLTS)], o, lp) for i, (o, lp) in enumerate(history.HISTORY_CONFIGS)]
    targets = [(b, o, lp) for (o, lp) in history.TARGET_CONFIGS for b in history.BLTS[:2 if tier == 'quick' else 3]]
    if tier == 'quick':
        targets = [(history.BLTS[i % 2], o, lp) for i, (o, lp) in enumerate(history.TARGET_CONFIGS)]
    refs = history.fresh_reference(targets)
    items = []
    nh = 0

    def cls_of(o):
        r = o['rule']
        if r in ('scotland', 'mpls', 'cfer', 'cfer-batch', 'wigm-prf', 'wigm-prf-batch', 'meek-prf'):
            return 'fixed'
        if r == 'qpq':
            return 'guarded'
        a = o.get('arithmetic', 'guarded')
        return 'fixed' if a == 'integer' else a
    for ti, tgt in enumerate(targets):
        ref = refs[ti]
        same = [h for h in H if cls_of(h[1]) == cls_of(tgt[1])]
        if tier == 'quick':
            # the class-level state is per arithmetic class: always run every history of the target's own class first
            hs = [[h] for h in same] + [[rng.choice(H)] for _ in range(3)] + [[rng.choice(H), rng.choice(same)] for _ in range(2)]
        else:
            hs = [[h] for h in H] + [[a, b] for a in H for b in rng.sample(H, 6)] + [[rng.choice(H) for _ in range(rng.randint(3, 6))] for _ in range(30)]
        for hist in hs:
            nh += 1
            history.run_history(hist)
            got = fresh.outputs(*tgt)
            again = fresh.outputs(*tgt)
            obs = dict(same_report=got.get('report') == ref.get('report'), same_dump=got.get('dump') == ref.get('dump'),
                       same_json=got.get('json') == ref.get('json'),
                       same_twice=(got.get('report'), got.get('dump'), got.get('json')) == (again.get('report'), again.get('dump'), again.get('json')))
            info = (tgt[0], '(same election in a fresh interpreter)', dict(target=tgt[1], history=[h[1] for h in hist]), tgt[2])
            if got['trace'] is None or ref['trace'] is None:
                if not all(obs.values()):
                    R.violation('C20: renderings differ after history %s for target %s (%s)' % ([h[1] for h in hist], tgt[1], [k for k, v in obs.items() if not v]),
                                dict(blt=tgt[0], options=tgt[1], history=[dict(blt=h[0], options=h[1]) for h in hist]))
                items.append((None, info))
                continue
            a, b = got['trace'], ref['trace']
            a['id'] = b['id'] = 0
            o = pairs.base_obs()
            o.update(obs)
            items.append((dict(rel='C20', a=a, b=b, map=list(range(1, a['nc'] + 1)), obs=o, unit=0), info))
    # the same PROFILE OBJECT counted again in fresh Election objects (also under another rule in between)
    nshared = 0
    # ... including files that embed counting options ([droop ...]): the file layer must be there for the second election too
    DROOP_BLT = history.BLTS[0].replace('4 2 [tie', '4 2 [droop arithmetic=fixed precision=3 defeat_batch=zero] [tie')
    DROOP_BLT2 = history.BLTS[2].replace('5 3 [tie', '5 3 [droop precision=2 omega=1 defeat_batch=none display=1] [tie')
    assert DROOP_BLT != history.BLTS[0] and DROOP_BLT2 != history.BLTS[2]
    shared = [(o, lp, ([history.EQ_BLT] if o['rule'] in ('meek', 'warren') else []) + [history.BLTS[0]]) for (o, lp) in
              history.TARGET_CONFIGS + [({'rule': 'meek', 'arithmetic': 'fixed', 'precision': 4}, None), ({'rule': 'warren', 'arithmetic': 'fixed', 'precision': 3}, None)]]
    # ... and files with one line per ballot paper (repeated rankings)
    DUP_BLT = '4 2 [tie 3 1 2 4] 1 1 2 0 1 1 2 0 1 1 2 0 1 2 3 0 1 2 3 0 1 2 3 0 2 3 0 1 4 1 0 1 4 1 0 1 2 0 0 "c1" "c2" "c3" "c4" "t"'
    shared += [(o, lp, [DUP_BLT]) for (o, lp) in history.TARGET_CONFIGS[::3]]
    shared += [({'rule': 'wigm'}, None, [DROOP_BLT, DROOP_BLT2]), ({'rule': 'meek', 'arithmetic': 'fixed'}, None, [DROOP_BLT2]), ({'rule': 'scotland'}, None, [DROOP_BLT])]
    for (o, lp, blts_) in shared:
        for b in blts_:
            prof = drive.ElectionProfile(data=b)
            first = fresh.outputs(b, o, lp, profile=prof)
            other = ({'rule': 'warren', 'arithmetic': 'fixed', 'precision': 3}, None) if o['rule'] == 'meek' else ({'rule': 'meek', 'arithmetic': 'fixed', 'precision': 3}, None)
            fresh.outputs(b, other[0], other[1], profile=prof)
            second = fresh.outputs(b, o, lp, profile=prof)
            ref2 = fresh.outputs(b, o, lp)            # freshly parsed copy of the same text
            nshared += 1
            obs = dict(same_report=second.get('report') == ref2.get('report'), same_dump=second.get('dump') == ref2.get('dump'),
                       same_json=second.get('json') == ref2.get('json'),
                       same_twice=(first.get('report'), first.get('dump'), first.get('json'), first['outcome']) == (second.get('report'), second.get('dump'), second.get('json'), second['outcome']))
            info = (b, '(same profile object, counted again)', dict(target=o), lp)
            if second['trace'] is None or ref2['trace'] is None or second['outcome'] != 'ok':
                if not all(obs.values()):
                    R.violation('C20: counting the same profile object again gives a different record: %s (%s)' % (o, [k for k, v in obs.items() if not v]), dict(blt=b, options=o))
                continue
            a, bb = second['trace'], ref2['trace']
            a['id'] = bb['id'] = 0
            ob = pairs.base_obs()
            ob.update(obs)
            items.append((dict(rel='C20', a=a, b=bb, map=list(range(1, a['nc'] + 1)), obs=ob, unit=0), info))
    R.cov['shared_profile_recounts'] = nshared
    # the command-line driver called repeatedly in one process: the same PATH holding a different election each time
    import tempfile, importlib, io, contextlib
    Droop = importlib.import_module('Droop')
    tmpd = tempfile.mkdtemp(prefix='vhist-')
    nmain = 0
    try:
        pa, pb = os.path.join(tmpd, 'election.blt'), os.path.join(tmpd, 'other.blt')
        for rule in ('wigm', 'meek', 'scotland', 'qpq'):
            outs = []
            for k, b in enumerate([history.BLTS[0], history.BLTS[2], history.BLTS[1], history.BLTS[0]]):
                for pth in (pa, pb):
                    with open(pth, 'w') as fh:
                        fh.write(b)
                o = dict(rule=rule, dump=True)
                if rule in ('wigm', 'meek'):
                    o.update(arithmetic='fixed', precision=4)
                with contextlib.redirect_stdout(io.StringIO()):
                    try:
                        ra = Droop.main(dict(o, path=pa))
                        rb = Droop.main(dict(o, path=pb)) if k == 0 else None
                    except Exception as e:
                        ra, rb = 'EXC ' + type(e).__name__, None
                E = drive.Election(drive.ElectionProfile(data=b), {kk: v for kk, v in o.items() if kk != 'dump'})
                with contextlib.redirect_stdout(io.StringIO()):
                    E.count()
                want = E.report() + E.dump()
                nmain += 1
                R.cov['evaluations'] += 1
                if ra != want:
                    R.violation('C20: Droop.main on a path whose file was rewritten between calls reports a different election (call %d, rule %s)' % (k + 1, rule),
                                dict(blt=b, options=o, call=k + 1))
                    break
    finally:
        import shutil
        shutil.rmtree(tmpd, ignore_errors=True)
    R.cov['driver_calls_on_a_rewritten_path'] = nmain
    pair_stage(R, prop, items, known)
    R.cov['histories'] = nh
    R.cov['targets'] = len(targets)
    R.cov['rule'] = ('histories of 1..6 earlier elections (each constructed, counted, reported, dumped, JSON-rendered) drawn from %d configurations covering every '
                     'arithmetic class and display branch, followed by the election under test; its renderings are compared byte for byte (sha1) with the same '
                     'election counted in a fresh interpreter (one child process per target) and with an immediate recount; TLC additionally compares the two '
                     'recorded traces action by action (relation C20 of Pairs.tla)' % len(H))
    R.assumptions += ['harness/fresh.py child processes give the history-free reference', 'sha1 equality stands for byte equality']
    return R.finish()


CLS_CFG = 'SPECIFICATION Spec\nINVARIANT HistoryFree\nINVARIANT Exported\nCONSTANTS MAXHIST = %d\n EXPORT = %d\n'


def class_state_stage(R, prop, tier):
    """
    (M) ClassState.tla: every history of up to 3 initialize() calls over 35 configurations, with comparisons dirtying the statistics in
    between: what the new election reads is history-free.  (S->C) exported histories are replayed on the real classes and every class
    attribute (also the stale ones) is compared with the model's prediction, so a reset that moves into one branch is noticed.
    """
    res = vlib.tlc('ClassState', CLS_CFG % (3, 53 if tier == 'quick' else 3), workers=8, heap_mb=2048, timeout=900)
    R.add_tlc(res)
    viol = re.search(r'Invariant (\w+) is violated', res['out'])
    R.stage('model-check ClassState.tla', distinct_states=res['distinct'], wall_s=round(res['wall'], 1), invariant_violated=viol.group(1) if viol else None)
    if viol:
        raise vlib.Machinery('ClassState.tla: %s violated in the specification (to be triaged):\n%s' % (viol.group(1), res['out'][-2000:]))
    if 'Error:' in res['out']:
        raise vlib.Machinery('TLC error in ClassState.tla:\n' + res['out'][-2500:])
    cases = history.cls_cases(res['out'])
    nd = 0
    for case in cases:
        diffs = history.replay_class_case(case)
        R.cov['traces_validated_against_impl'] += 1
        R.cov['evaluations'] += 1
        if diffs:
            nd += 1
            R.violation('C20: after the history %s the class attribute %s is %s, a fresh process / the specification has %s' % (
                [(h['cls'], h['p'], h['g'], h['d']) for h in case['hist']], diffs[0][0], diffs[0][2], diffs[0][1]),
                dict(history=case['hist'], differences=diffs))
    R.stage('spec->code replay of class-state histories', cases=len(cases), differences=nd)


# ----------------------------------------------------------------------------------------
#  C19: an interrupted count can always be reported
# ----------------------------------------------------------------------------------------
INTR_CFG = 'SPECIFICATION Spec\nINVARIANT RenderingsSucceed\nINVARIANT MarkedOnce\nINVARIANT PrefixKept\nCONSTANTS MAXACTS = %d\n FILL_ON_DEMAND = %s\n'


def check_c19(tier):
    prop = 'C19'
    R = vlib.Result(prop, tier)
    rng = random.Random(vlib.seed() * 1000003 + 19)
    known = known_ids()
    fixed_f9 = any(e.get('id') == 'F9' and e.get('kind') == 'fixed' for e in vlib.load_known())
    # (M) the abstract record/interrupt model: every interleaving of count steps, _fill assignments and the interrupt
    res = vlib.tlc('Interrupt', INTR_CFG % (5 if tier == 'quick' else 8, 'TRUE' if (fixed_f9 or 'F9' not in known) else 'FALSE'), workers=4, heap_mb=1024, timeout=600)
    R.add_tlc(res)
    viol = 'is violated' in res['out']
    R.stage('model-check Interrupt.tla', distinct_states=res['distinct'], invariant_violated=viol)
    if 'Error:' in res['out'] and not viol:
        raise vlib.Machinery('TLC error in Interrupt.tla:\n' + res['out'][-2000:])
    model_says_ok = not viol
    # (C->S) crash points on the real code
    profiles = [gen.randprofile(rng, minc=3, maxc=5, maxlines=6, maxm=3, wd=True, und=True) for _ in range(2 if tier == 'quick' else 6)]
    profiles.append(dict(nc=4, seats=2, lines=[(3, [1, 2]), (2, [2, 3]), (2, [3]), (1, [4, 1]), (1, [2, 1, 4])], tie=[3, 1, 2, 4], withdrawn=[], undeclared=[], eqlines=[]))
    recs, meta = [], {}
    rid = 0
    per_rule = collections.Counter()
    for pi, pr in enumerate(profiles):
        blt = drive.mkblt(**pr)
        todo = []
        for rule in drive.RULES:
            opts, lp = gen.configs(rule, rng)[0]
            if opts.get('arithmetic') == 'rational':
                opts, lp = dict(rule=rule, arithmetic='fixed', precision=3), None
            todo.append((rule, opts, lp))
        if pi == len(profiles) - 1:
            # the iterative rules with their default (quasi-exact) arithmetic and with exact arithmetic: the progress-output path
            todo += [('meek', dict(rule='meek'), None), ('warren', dict(rule='warren', arithmetic='guarded', precision=4, guard=3), None),
                     ('meek', dict(rule='meek', arithmetic='rational', omega=2), None)]
        for rule, opts, lp in todo:
            try:
                K, full, fulljson = interrupt.full_run(blt, opts, lp)
            except Exception as e:
                continue
            if tier == 'quick':
                first = next((i for i, a in enumerate(full) if a[0] != 'log'), 0)
                ks = set(range(1, min(K, 200) + 1, 1 if pi == len(profiles) - 1 else 3))
                ks |= set(rng.sample(range(1, K + 1), min(K, 60)))
                if pi == len(profiles) - 1:
                    # every distinct executed line of package code is an interruption point at least once (first and last visit)
                    kl, nl = interrupt.per_line_events(2)
                    ks |= kl
                    R.cov['distinct_code_lines_interrupted'] = R.cov.get('distinct_code_lines_interrupted', 0) + nl
            else:
                ks = set(range(1, K + 1)) if K <= 6000 else set(range(1, 400)) | set(rng.sample(range(1, K + 1), 3000)) | interrupt.per_line_events(3)[0]
            for k in sorted(ks):
                X = interrupt.crash_record(blt, opts, k, full, fulljson, lp)
                R.cov['evaluations'] += 1
                if X is None:
                    continue
                rid += 1
                X['id'] = rid
                for f in ('report_exc', 'dump_exc', 'json_exc'):
                    X.setdefault(f, '')
                recs.append(X)
                meta[rid] = (blt, opts, lp, k)
                per_rule[rule] += 1
    # the same through the command-line driver Droop.main (report + dump + json in one call, its own try/except)
    import tempfile
    nmain = 0
    fd, pth = tempfile.mkstemp(prefix='vintr-', suffix='.blt')
    try:
        blt0 = drive.mkblt(**profiles[-1])
        with os.fdopen(fd, 'w') as fh:
            fh.write(blt0)
        main_cfgs = [dict(rule=rule, arithmetic='fixed', precision=3) if rule in ('wigm', 'meek', 'warren') else dict(rule=rule) for rule in drive.RULES]
        main_cfgs += [dict(rule='meek'), dict(rule='warren')]     # the default quasi-exact arithmetic: the progress-output path
        for opts in main_cfgs:
            rule = opts['rule']
            K, full, fulljson = interrupt.full_run(blt0, opts, None)
            ks = sorted(set(range(1, 60, 4)) | set(rng.sample(range(1, K + 1), min(K, 12 if tier == 'quick' else 150))))
            for k in ks:
                X = interrupt.main_record(pth, blt0, dict(opts, profile=1) if k % 5 == 0 else opts, k, full, fulljson, with_report=(k % 2 == 0))
                R.cov['evaluations'] += 1
                if X is None:
                    continue
                rid += 1
                X['id'] = rid
                recs.append(X)
                meta[rid] = (blt0, dict(opts, via='Droop.main', report=(k % 2 == 0)), None, k)
                nmain += 1
    finally:
        os.unlink(pth)
    R.cov['crash_points_through_Droop_main'] = nmain
    out, res2 = vlib.judge_intr(recs, workers=16)
    R.add_tlc(res2)
    R.cov['traces_validated_against_impl'] += len(recs)
    byid = {x['id']: x for x in recs}
    for i, names in out.items():
        blt, opts, lp, k = meta[i]
        X = byid[i]
        if not X['filled'] and 'F9' in known and set(names) <= {'report_fails', 'dump_fails'}:
            R.known_finding('F9', known['F9']['text'])
            continue
        R.violation('C19: interrupt at line event %d of %s: %s (%s %s)' % (k, opts, names, X.get('report_exc', ''), X.get('dump_exc', '')),
                    dict(blt=blt, options=opts, lowprec=lp, line_event=k, record=X))
    pre = sum(1 for x in recs if not x['filled'])
    R.cov['distinct_nontrivial'] = len(recs)
    R.cov['crash_points_before_header_filled'] = pre
    R.cov['per_rule'] = dict(per_rule)
    for x in recs[:2] + recs[len(recs) // 2:len(recs) // 2 + 1]:
        R.sample(x)
    R.cov['rule'] = ('every (thorough) / a stratified sample incl. every early line event (quick) of the executed lines of package code during Election.count(), '
                     'for all 11 rule names; at each a KeyboardInterrupt is raised through sys.settrace, then report(True), dump(True), json(True) are called; '
                     'the crash-point record is judged by TraceInterrupt.tla; the abstract model Interrupt.tla is checked exhaustively')
    R.assumptions += ['sys.settrace line events stand for interruption points', 'the abstract model covers record.py/_fill and the three renderers only']
    return R.finish()


# ----------------------------------------------------------------------------------------
#  C15 / C16: the ballot-file reader
# ----------------------------------------------------------------------------------------
def check_blt(prop, tier):
    R = vlib.Result(prop, tier)
    rng = random.Random(vlib.seed() * 1000003 + 1516)
    known = known_ids()
    fixed = sorted(e['id'] for e in vlib.load_known() if e.get('kind') == 'fixed' and e['id'] in ('F4', 'F5', 'F6', 'F7', 'F17'))
    if prop == 'C16' or tier == 'thorough':
        blt_model_stage(R, prop, tier, fixed)
    recs, meta = [], {}
    rid = 0
    skipped = collections.Counter()
    skipped_path = collections.Counter()
    nwf = 450 if tier == 'quick' else 3000
    nfz = 700 if tier == 'quick' else 20000
    texts = []
    for _ in range(nwf):
        e = blt.abstract_election(rng, maxc=6 if rng.random() < 0.9 else 9)
        texts.append((blt.render_wf(rng, e), blt.denote(e)))
    for big in (255, 256, 257):
        e = blt.abstract_election(rng, nc=big)
        e['names'] = ['c%d' % c for c in range(1, big + 1)]
        texts.append((blt.render_wf(rng, e), blt.denote(e)))
    texts += [(t, None) for t in blt.edge_texts(rng)]
    if prop == 'C16' or tier == 'thorough':
        texts += [(t, None) for t in blt.fuzz_texts(rng, nfz)]
        # ... and, without sampling, every single-word edit of the base files over a core alphabet (the full one in the thorough tier)
        sysx = blt.systematic_texts(blt.ALPHABET if tier == 'thorough' else None, None if tier == 'thorough' else blt.BASES[:3])
        seen = set(t for t, _ in texts)
        texts += [(t, None) for t in dict.fromkeys(sysx) if t not in seen]
    else:
        texts += [(t, None) for t in blt.fuzz_texts(rng, 300)]
    for text, want in texts:
        R.cov['evaluations'] += 1
        try:
            W = blt.words_of(text)
        except blt.Big:
            skipped['number beyond 10^8'] += 1
            continue
        if want is not None and rid % 5 == 0:
            # the same well-formed text read from a file (UTF-8, with a byte-order mark every other time)
            import tempfile
            fd, pth = tempfile.mkstemp(prefix='vblt-', suffix='.blt')
            with os.fdopen(fd, 'wb') as fh:
                fh.write((b'\xef\xbb\xbf' if rid % 10 == 0 else b'') + text.encode('utf-8'))
            try:
                real, ctor_ok, ctor_exc = blt.real_outcome(path=pth)
            finally:
                os.unlink(pth)
            skipped_path['read through path=%s' % (' with BOM' if rid % 10 == 0 else '')] += 1
        else:
            real, ctor_ok, ctor_exc = blt.real_outcome(text)
        rid += 1
        recs.append(dict(id=rid, words=W, real=real, ctor_ok=ctor_ok, want=want if want is not None else dict(none=True), kf=''))
        meta[rid] = (text, real, ctor_exc)
    outcomes = collections.Counter(m[1]['out'] for m in meta.values())
    binds = collections.Counter()
    # chunks bounded by their total number of words (every TLC worker holds the deserialized chunk)
    chunks, cur, cw = [], [], 0
    for r in recs:
        if cur and (cw + len(r['words']) > 25000 or len(cur) >= 1500):
            chunks.append(cur)
            cur, cw = [], 0
        cur.append(r)
        cw += len(r['words'])
    if cur:
        chunks.append(cur)
    for chunk in chunks:
        out, res = vlib.judge_blt(chunk, fixed, workers=16, heap_mb=6144)
        R.add_tlc(res)
        R.cov['traces_validated_against_impl'] += len(chunk)
        for i, names in out.items():
            text, real, ctor_exc = meta[i]
            for nm in names:
                pfx, what = nm.split(':', 1)
                if pfx == 'BIND':
                    binds[what] += 1
                    if len(R.cov.setdefault('spec_code_divergences', [])) < 10:
                        R.cov['spec_code_divergences'].append(dict(what=what, text=text, real=real['out'], exc=real['exc']))
                    continue
                if pfx != prop:
                    continue
                if what.startswith('KNOWN_') or 'KNOWN_' in what:
                    fid = next((f for f in ('F4', 'F5', 'F6', 'F7', 'F17') if f in known and f not in fixed), None)
                    if fid:
                        R.known_finding(fid, known[fid]['text'])
                        continue
                R.violation('%s: %s on text %r (outcome %s %s %s)' % (prop, what, text[:120], real['out'], real['exc'], ctor_exc),
                            dict(text=text, outcome=real, constructor=ctor_exc, failed=names))
    R.cov['distinct_nontrivial'] = len(set(m[0] for m in meta.values()))
    R.cov['real_outcomes'] = dict(outcomes)
    R.cov['spec_code_divergence_counts'] = dict(binds)
    R.cov['skipped'] = dict(skipped)
    R.cov['files_read_through_path'] = dict(skipped_path)
    for t, w in texts[:2] + texts[-2:]:
        R.sample(dict(text=t, wellformed=w is not None))
    R.cov['rule'] = ('well-formed renderings of random abstract elections (layout, nested /* */ and # comments, quoted names with comment markers and '
                     'UTF-8, [nick]/[tie]/[withdrawn]/[undeclared]/-n, ballot ids, equal rankings) with the election they denote; truncations at every word, '
                     'single-word deletions/substitutions/insertions over a %d-word alphabet, word soups and unicode strings; every text is read by the real '
                     'ElectionProfile and by the TLA+ reader specification (spec/Blt.tla: Tokenize + Parse) and judged by TraceBlt.tla' % len(blt.ALPHABET))
    R.assumptions += ['word splitting and the per-word features (regex digits, strip) are computed by the harness', 'numbers beyond 10^8 are skipped']
    return R.finish()


MC_ALPHA = ['0', '1', '2', '3', '-1', '-9', '1=2', '2=2', '[tie', '[withdrawn', '2]', '1]', '(a)', '(b', '"x"', '"y', 'z"', '#', '/*', '*/', 'q', '256']
MC_BASES = ['2 1 2 1 2 0 1 2 0 0 "a" "b" "t"', '3 2 [tie 3 1 2] -3 (a) 1 2 0 (b) 2 0 0 "a" "b" "c" "t" "s"']


def blt_model_stage(R, prop, tier, fixed):
    "(M) MCBlt.tla: totality and validity of the reader specification over all 1- and 2-word edits of base files"
    import tempfile, shutil
    alpha = MC_ALPHA if tier == 'thorough' else MC_ALPHA[:14] + ['"x"', '#', '/*', '*/']
    words = []
    for w in alpha + sorted(set(' '.join(MC_BASES).split()) - set(alpha)):
        words.append(w)
    feats = {w: blt.words_of(w)[0] for w in words}
    idx = {w: i + 1 for i, w in enumerate(words)}
    data = dict(alpha=[feats[w] for w in words], bases=[[idx[w] for w in b.split()] for b in (MC_BASES if tier == 'thorough' else MC_BASES[:1] + [MC_BASES[1]])])
    tmp = tempfile.mkdtemp(prefix='vblt-')
    try:
        path = os.path.join(tmp, 'alpha.json')
        json.dump(data, open(path, 'w'))
        cfg = 'INIT Init\nNEXT Next\nINVARIANT Total\nINVARIANT AcceptedValid\nCONSTANTS\n FIXED = {%s}\n MAXY = %d\n' % (', '.join('"%s"' % x for x in fixed), 3 if tier == 'quick' else 99)
        res = vlib.tlc('MCBlt', cfg, env={'ALPHA_FILE': path}, workers=16, heap_mb=3072, timeout=1500)
    finally:
        shutil.rmtree(tmp, ignore_errors=True)
    R.add_tlc(res)
    viol = re.search(r'Invariant (\w+) is violated', res['out'])
    R.stage('model-check MCBlt.tla (reader specification total and valid over word edits)', distinct_states=res['distinct'], wall_s=round(res['wall'], 1),
            alphabet=len(words), invariant_violated=viol.group(1) if viol else None)
    if viol:
        m = re.search(r't = (\[.*?\])\n', res['out'], re.S)
        raise vlib.Machinery('MCBlt.tla: %s violated by the reader specification (a listed-and-unrepaired defect, or a specification error): %s' % (viol.group(1), m.group(1) if m else ''))
    if 'Error:' in res['out']:
        raise vlib.Machinery('TLC error in MCBlt.tla:\n' + res['out'][-2500:])


COUNT_PROPS = ('C01', 'C02', 'C04', 'C05', 'C06', 'C07', 'C08', 'C09', 'C18')


def replay(prop, path):
    d = json.load(open(path))
    T = drive.run_count(d['blt'], d['options'], lowprec=tuple(d['lowprec']) if d.get('lowprec') else None, iters=True)
    Nt = drive.to_native(T)
    if Nt is None:
        print('not encodable')
        return 2
    Nt['id'] = 1
    Nt['fam'] = drive.fam(T['rule'])
    verd, res = vlib.judge([Nt], [prop], workers=1)
    print('outcome', T['outcome'], T['exc'])
    for k, a in enumerate(T['acts'], 1):
        print(k, a['tag'], a['msg'])
    print('failed clauses:', verd[1])
    return 1 if verd[1] else 0


def main(argv):
    if len(argv) < 2:
        print('usage: run <property> quick|thorough | run <property> --replay <file>')
        return 2
    prop = argv[0]
    try:
        if argv[1] == '--replay':
            return replay(prop, argv[2])
        tier = argv[1]
        if tier not in ('quick', 'thorough'):
            return 2
        if prop in COUNT_PROPS:
            return check_counts(prop, tier)
        if prop == 'C03':
            return check_c03(tier)
        if prop in ('C10', 'C11', 'C13', 'C17'):
            return check_pairs(prop, tier)
        if prop in ('C12', 'C14'):
            return check_arith(prop, tier)
        if prop == 'C20':
            return check_c20(tier)
        if prop == 'C19':
            return check_c19(tier)
        if prop in ('C15', 'C16'):
            return check_blt(prop, tier)
        print('no check registered for', prop)
        return 2
    except vlib.Machinery as e:
        print('MACHINERY FAILURE:', e)
        return 2
    except Exception:      # a defect of the machinery itself is never reported as a violation
        import traceback
        print('MACHINERY FAILURE (internal error):')
        traceback.print_exc()
        return 2
