"""
Check implementations.  Each check_<kind>(prop, tier) returns a process exit code.
No top-level driver code; `run` (the entry point) calls main().
"""
import sys, os, json, random, time, collections

HERE = os.path.dirname(os.path.abspath(__file__))
if HERE not in sys.path:
    sys.path.insert(0, HERE)

import drive, gen, vlib  # noqa: E402

BATCH = 1200     # traces per TLC start (JSON loading dominates; keeps the heap small)


def known_ids():
    return {e['id']: e for e in vlib.load_known() if e.get('kind') == 'finding'}


# ----------------------------------------------------------------------------------------
#  count monitors: C01 C02 C04 C05 C06 C07 C08 C09 C18(record part)
# ----------------------------------------------------------------------------------------
MIX = {
    'C01': [('random', 4), ('tie', 1), ('quota', 1), ('coalition', 1), ('chain', 1)],
    'C02': [('random', 3), ('chain', 3), ('quota', 1)],
    'C04': [('quota', 4), ('random', 2), ('tie', 1)],
    'C05': [('coalition', 4), ('random', 2)],
    'C06': [('chain', 3), ('random', 3), ('quota', 1)],
    'C07': [('tie', 4), ('random', 2), ('quota', 1)],
    'C08': [('random', 4), ('tie', 1), ('quota', 1)],
    'C09': [('random', 4), ('tie', 1), ('coalition', 1)],
    'C18': [('random', 4), ('tie', 1), ('quota', 1)],
}
RULESET = {
    'C06': drive.GREG,
    'C08': drive.MEEK,
}
NPROFILES = {'quick': 110, 'thorough': 1500}


def pick_shape(rng, mix):
    tot = sum(w for _, w in mix)
    x = rng.random() * tot
    for s, w in mix:
        x -= w
        if x <= 0:
            return s
    return mix[-1][0]


def make_profile(rng, shape, prop, rule_hint=None):
    if shape == 'random':
        return gen.randprofile(rng, wd=True, und=(prop not in ('C05',)), full=(prop == 'C05' and rng.random() < 0.6),
                               maxc=6 if prop == 'C05' else 7)
    return gen.SHAPES[shape](rng)


def f2_match(T):
    "F2: mpls, fewer declared candidates than seats: right winners, then AssertionError in postCheck"
    if T['rule'] != 'mpls' or T['outcome'] != 'exc' or T['exc'] != 'AssertionError':
        return False
    declared = [c for c in range(1, T['nc'] + 1) if not T['wd'][c - 1] and not T['und'][c - 1]]
    return len(declared) < T['seats']


def f11_match(T):
    """F11: warren, an iteration that ends 'stable' with surplus > omega, followed by the exclusion of a
    candidate that is not the lowest by more than omega."""
    if T['rule'] != 'warren':
        return False
    acts = T['acts']
    for k, a in enumerate(acts):
        if a['mc'] == 'iterate_stable' and a['surplus'] > T['omega']:
            for b in acts[k + 1:k + 3]:
                if b['tag'] == 'defeat' and b['subj']:
                    hop = [c for c in range(T['nc']) if a['st'][c] == 'H']
                    mn = min(a['vote'][c] for c in hop)
                    if a['vote'][b['subj'] - 1] - mn > T['omega']:
                        return True
    return False


def check_counts(prop, tier):
    R = vlib.Result(prop, tier)
    rng = random.Random(vlib.seed() * 1000003 + int(prop[1:]))
    known = known_ids()
    rules = RULESET.get(prop, drive.RULES)
    nprof = NPROFILES[tier]
    traces, meta = [], {}
    hist = collections.Counter()
    byrule = collections.Counter()
    skipped = collections.Counter()
    tid = 0
    inputs = set()

    def flush():
        if not traces:
            return
        verd, res = vlib.judge(traces, [prop], workers=16)
        R.add_tlc(res)
        R.cov['traces_validated_against_impl'] += len(traces)
        for i, fails in verd.items():
            blt, opts, lp, T = meta[i]
            real = []
            for (p, cl, k) in fails:
                if cl.startswith('KNOWN_'):
                    fid = cl[6:]
                    if fid in known:
                        R.known_finding(fid, known[fid]['text'])
                        continue
                if p == 'C01' and cl == 'outcome' and 'F2' in known and f2_match(T):
                    R.known_finding('F2', known['F2']['text'])
                    continue
                if p == 'C05' and 'F11' in known and f11_match(T):
                    R.known_finding('F11', known['F11']['text'])
                    continue
                real.append((p, cl, k))
            if real:
                p, cl, k = real[0]
                a = T['acts'][k - 1] if 0 < k <= len(T['acts']) else {}
                R.violation('%s clause %s at action %d (%s) rule=%s opts=%s' % (p, cl, k, a.get('msg', T.get('exc', '')), T['rule'], opts),
                            dict(blt=blt, options=opts, lowprec=lp, clause=cl, action_index=k, action=a.get('msg'),
                                 all_failed_clauses=real, outcome=T['outcome'], exc=T['exc'],
                                 rerun='cd /verif && ./run %s --replay <this file>' % prop))
        del traces[:]
        meta.clear()

    for i in range(nprof):
        shape = pick_shape(rng, MIX[prop])
        pr = make_profile(rng, shape, prop)
        if prop == 'C08' and rng.random() < 0.4:
            pr = gen.randprofile(rng, wd=True, eq=True, maxc=6, maxlines=8)
        blt = drive.mkblt(**pr)
        for rule in rules:
            if pr.get('eqlines') and rule not in ('meek', 'warren'):
                continue
            for opts, lp in gen.configs(rule, rng, all_=(tier == 'thorough' and i % 5 == 0)):
                budget = 10
                T = drive.run_count(blt, opts, lowprec=lp, iters=(prop == 'C08'), budget=budget,
                                    want_ballots=(prop in ('C02', 'C06', 'C01')))
                R.cov['evaluations'] += 1
                if T['outcome'] == 'reject':
                    skipped['rejected:' + T['exc'][:40]] += 1
                    continue
                if T['outcome'] == 'budget':
                    if rule in ('meek', 'warren') and opts.get('arithmetic') == 'rational':
                        skipped['budget (meek/warren rational: not explored)'] += 1
                        continue
                Nt = drive.to_native(T)
                if Nt is None:
                    skipped['not encodable in 32-bit integers (%s %s)' % (rule, T.get('kind'))] += 1
                    continue
                tid += 1
                Nt['id'] = tid
                Nt['fam'] = drive.fam(T['rule'])
                traces.append(Nt)
                meta[tid] = (blt, opts, lp, T)
                inputs.add((blt, json.dumps(opts, sort_keys=True), str(lp)))
                byrule[T['rule']] += 1
                for a in T['acts']:
                    hist[a['mc']] += 1
                if tid % 97 == 1:
                    R.sample(dict(blt=blt, options=opts, lowprec=lp, actions=[a['msg'] for a in T['acts']][:12]))
                if len(traces) >= BATCH:
                    flush()
    flush()
    R.cov['distinct_nontrivial'] = len(inputs)
    R.cov['rule'] = ('profiles from shaped generators %s (seeded), every rule name in %s x arithmetic configurations of gen.py; '
                     'a case = one (ballot file, options) pair counted by the real code; its recorded trace is judged by '
                     'TLC evaluating the %s operators of spec/Props.tla on every action' % (MIX[prop], list(rules), prop))
    R.cov['per_rule'] = dict(byrule)
    R.cov['action_classes_seen'] = dict(hist)
    R.cov['skipped'] = dict(skipped)
    R.assumptions += ['trace recording by harness/drive.py (instance wrappers around Election.logAction and Candidate methods)',
                      'TLC and the CommunityModules Json reader',
                      'numbers above 2^29 are not encodable: such traces are counted under skipped, not judged']
    return R.finish()


COUNT_PROPS = ('C01', 'C02', 'C04', 'C05', 'C06', 'C07', 'C08', 'C09', 'C18')


def replay(prop, path):
    d = json.load(open(path))
    T = drive.run_count(d['blt'], d['options'], lowprec=tuple(d['lowprec']) if d.get('lowprec') else None, iters=True)
    Nt = drive.to_native(T)
    if Nt is None:
        print('not encodable')
        return 2
    Nt['id'] = 1
    Nt['fam'] = drive.fam(T['rule'])
    verd, res = vlib.judge([Nt], [prop], workers=1)
    print('outcome', T['outcome'], T['exc'])
    for k, a in enumerate(T['acts'], 1):
        print(k, a['tag'], a['msg'])
    print('failed clauses:', verd[1])
    return 1 if verd[1] else 0


def main(argv):
    if len(argv) < 2:
        print('usage: run <property> quick|thorough | run <property> --replay <file>')
        return 2
    prop = argv[0]
    try:
        if argv[1] == '--replay':
            return replay(prop, argv[2])
        tier = argv[1]
        if tier not in ('quick', 'thorough'):
            return 2
        if prop in COUNT_PROPS:
            return check_counts(prop, tier)
        print('no check registered for', prop)
        return 2
    except vlib.Machinery as e:
        print('MACHINERY FAILURE:', e)
        return 2
