"""Regenerates /verif/MANIFEST.json from the table below (run by hand after adding a check)."""
import json, os
V = os.path.dirname(os.path.dirname(os.path.abspath(__file__)))
BASE = "cd /repo && /venv/bin/python -m pytest -ra -q -p no:cacheprovider --timeout=900 --continue-on-collection-errors"
CHECKS = {
 'C01': ('terminal predicate C01 of Props.tla judged by TLC on recorded traces', '7 C01'),
 'C02': ('conservation invariants of Props.tla judged by TLC on every recorded action', '7 C02'),
 'C04': ('quota formulas and Holds-predicates of Props.tla judged by TLC on recorded traces', '7 C04'),
 'C05': ('Droop-proportionality terminal predicate of Props.tla judged by TLC over all candidate subsets', '7 C05'),
 'C06': ('ballot-state invariants and transfer action properties of Props.tla judged by TLC (ballot snapshots)', '7 C06'),
 'C07': ('exclusion/surplus/tie action properties of Props.tla judged by TLC on recorded traces', '7 C07'),
 'C08': ('Meek invariants of Props.tla judged by TLC on post-distribution snapshots and internal iterations', '7 C08'),
 'C09': ('status transition relation of Props.tla judged by TLC on consecutive snapshots', '7 C09'),
 'C03': ('statutory rule specifications (spec/Rule*.tla) model-checked; exported cases replayed into the code; recorded traces validated in lock-step (TraceCount.tla)', '7 C03'),
 'C10': ('SameHistory relation (Pairs.tla) judged by TLC on pairs of recorded traces of two presentations', '7 C10'),
 'C11': ('FinalDiff / SameByName relations (Pairs.tla) judged by TLC on renumbered and withdrawn-deleted pairs', '7 C11'),
 'C12': ('relational arithmetic laws (Num.tla) judged by TLC on calls recorded from Fixed and Rational', '7 C12'),
 'C13': ('comparison law (Num.tla) on recorded Guarded calls; SameHistory guard0/fixed and QuasiDiff guarded/rational pairs (Pairs.tla)', '7 C13'),
 'C14': ('printing law PrintLaw (Num.tla) judged by TLC on str() of recorded values', '7 C14'),
 'C15': ('reader specification Blt.tla (Tokenize + Parse) vs the real ElectionProfile on well-formed renderings with the election they denote (TraceBlt.tla)', '7 C15'),
 'C16': ('totality / ValidProfile of the reader specification Blt.tla judged by TLC on fuzzed texts read by the real code (TraceBlt.tla)', '7 C16'),
 'C17': ('SameHistory relation on perturbed-option pairs of statutory rules (Pairs.tla)', '7 C17'),
 'C19': ('abstract record/interrupt model Interrupt.tla checked exhaustively; crash-point records of the real code judged by TraceInterrupt.tla', '7 C19'),
 'C20': ('relation C20 of Pairs.tla on (after-history, fresh-interpreter) trace pairs with byte-equality observations', '7 C20'),
 'C18': ('record-consistency predicates of Props.tla judged by TLC on recorded traces', '7 C18'),
}
LEVEL = {'count': "(M) TLC model-checks spec/Droop.tla exhaustively over a small scope (every election of 3 candidates, <= 3-4 ballots, 18 rule/arithmetic configurations) and by simulation over a large one (5 candidates, 60 ballots), evaluating this property's operators of spec/Props.tla on every finished count; (S->C) exported behaviours are replayed into the real code and compared action by action; (C->S) the same operators are evaluated by TLC on traces recorded from the real code over stratified shaped inputs, incl. the shipping precisions (BigProps.tla). Bounded/sampled, not a proof; see evidence for what a run covered", 'C03': 'the statutory rule specifications (spec/Rule*.tla, clause-by-clause transcriptions) are model-checked (exhaustive small scope + simulation), every exported behaviour is replayed into the real code with all fields compared, and recorded executions of the real code are validated in lock-step as behaviours of the specification (TraceCount.tla), at statutory and reduced precision. Bounded/sampled, not a proof', 'pairs': "metamorphic lemma on the specification's count-as-a-function (Droop.tla: exhaustive small scope + simulation) where one exists, and the TLA+ relation of spec/Pairs.tla evaluated by TLC on pairs of traces recorded from the real code over stratified shaped inputs. Bounded/sampled, not a proof", 'arith': "the laws of spec/Num.tla (and BigNum.tla for operands to 10^40) evaluated by TLC on calls recorded from the real arithmetic classes over an operand grid covering every rounding and display boundary; the specification's own arithmetic is model-checked against the same laws (MCNum.tla). Sampled, not a proof", 'blt': 'the reader specification spec/Blt.tla (tokenizer + parser + validation) is model-checked for totality/validity over all 1-2 word edits (MCBlt.tla) and compared by TLC with the real reader on well-formed renderings (with the election they denote) and on systematic and random ill-formed texts (TraceBlt.tla). Bounded/sampled, not a proof', 'C17': "the option lattice spec/Options.tla (four layers, every rule's options(), every class's initialize(); >= 60 000 cases) and CliArgs.tla are model-checked exhaustively; exported cases are replayed into Election.__init__ / Options.parse / Droop.main; perturbed-option pairs of statutory counts judged by Pairs.tla. Exhaustive within the modelled option domains", 'C19': 'spec/Interrupt.tla (record, lazy header fill, interrupt, three renderers) model-checked over all interleavings; crash-point records from the real code (KeyboardInterrupt injected at executed lines via sys.settrace, directly and through Droop.main) judged by TraceInterrupt.tla. Exhaustive for the abstract model, sampled (quick) / near-exhaustive (thorough) over line events', 'C20': 'spec/ClassState.tla (all class attributes of the three arithmetic classes over histories <= 3) model-checked and its histories replayed on the real classes; relation C20 of Pairs.tla on (after-history, fresh-interpreter) executions with byte-equality observations. Bounded/sampled, not a proof'}
KIND = {'C01': 'count', 'C02': 'count', 'C04': 'count', 'C05': 'count', 'C06': 'count', 'C07': 'count', 'C08': 'count', 'C09': 'count', 'C18': 'count', 'C03': 'C03', 'C10': 'pairs', 'C11': 'pairs', 'C13': 'arith', 'C12': 'arith', 'C14': 'arith', 'C15': 'blt', 'C16': 'blt', 'C17': 'C17', 'C19': 'C19', 'C20': 'C20'}
NA = {}
for i in range(1, 21):
    p = 'C%02d' % i
    if p not in CHECKS:
        NA[p] = 'check not built yet in this round (planned: DESIGN.md section 7 %s)' % p
def main():
    checks = []
    for p, (tech, ref) in sorted(CHECKS.items()):
        checks.append(dict(
            property_id=p, quick_cmd='./run %s quick' % p, thorough_cmd='./run %s thorough' % p,
            evidence_file='/verif/evidence/%s.json' % p, replay_cmd_template='./run %s --replay {path}' % p,
            engine='tlc',
            level_claimed=dict(category='model_checking',
                               text=LEVEL[KIND[p]],
                               design_ref='DESIGN.md section ' + ref),
            level_note='trusted: harness/drive.py trace recording, TLC, CommunityModules Json; numbers above 2^29 are not encodable and are counted as skipped',
            technique='TLA+ specification + TLC trace validation: ' + tech))
    m = dict(version=1,
             setup_cmd='cd /verif && ./bin/setup',
             hooks=dict(guard='DROOP_VERIF', enable='no hooks: observation is done from the harness process (instance wrappers); nothing to enable',
                        baseline_off_cmd=BASE, source_commits=[], add_only=True),
             engines=[dict(name='tlc', path='/verif/spec', serves_properties=sorted(CHECKS), kind_free_text='TLA+ specification checked with TLC 1.8; harness in /verif/harness drives the real code')],
             checks=checks,
             notes='fix: commits in /repo: see known_findings.json (kind=fixed).',
             not_applicable=[dict(property_id=p, reason=r) for p, r in sorted(NA.items())])
    json.dump(m, open(os.path.join(V, 'MANIFEST.json'), 'w'), indent=1)
if __name__ == '__main__':
    main()
