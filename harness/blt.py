"""
C15 / C16: texts offered as ballot files.  Word features for spec/Blt.tla, the real reader's outcome,
well-formed renderings of abstract elections, and fuzzing.  No top-level driver code.
"""
import re, signal, random
import drive
from drive import ElectionProfile, ElectionProfileError, Election

_DIG = re.compile(r'\d+$')
_SDIG = re.compile(r'-?\d+$')
BIG = 10 ** 8


class Big(Exception):
    pass


def _num(s, rx):
    if rx.match(s):
        try:
            v = int(s)
        except ValueError:
            return False, 0
        if abs(v) > BIG:
            raise Big()
        return True, v
    return False, 0


def words_of(text):
    "independent word splitter + the features the reader tests (raises Big for numbers TLC cannot hold)"
    W = []
    for ln, line in enumerate(text.splitlines(), 1):
        for t in line.split():
            dig, val = _num(t, _DIG)
            sdig, sval = _num(t, _SDIG)
            rb = t.rstrip(']')
            rbdig, rbval = _num(rb, _DIG)
            parts = []
            for x in t.split('='):
                d, v = _num(x, _DIG)
                parts.append(dict(t=x, dig=d, val=v))
            W.append(dict(t=t, line=ln, q0=t.startswith('"'), q1=t.endswith('"'), c0=t.startswith('/*'), c1=t.endswith('*/'),
                          h=t.startswith('#'), dig=dig, sdig=sdig, val=val if dig else sval, br0=t.startswith('['), br1=t.endswith(']'),
                          p0=t.startswith('('), p1=t.endswith(')'), isz=(t == '0'), lb=t.lstrip('['), lbrb=t.lstrip('[').rstrip(']'),
                          rb=rb, rbdig=rbdig, rbval=rbval, lq=t.lstrip('"'), rq=t.rstrip('"'), lrq=t.strip('"'),
                          lp=t.lstrip('('), rp=t.rstrip(')'), lrp=t.lstrip('(').rstrip(')'), parts=parts))
    return W


class _Timeout(Exception):
    pass


def _alarm(sig, frm):
    raise _Timeout()


def project(p):
    nc = p.nCand
    return dict(nCand=nc, nSeats=p.nSeats, nBallots=p.nBallots, withdrawn=sorted(p.withdrawn), undeclared=sorted(p.undeclared),
                tie=[p.tieOrder.get(c, 0) for c in range(1, nc + 1)], nicks=[str(p.nickName.get(c, '')) for c in range(1, nc + 1)],
                lines=[dict(m=bl.multiplier, r=list(bl.ranking)) for bl in p.ballotLines],
                eqlines=[dict(m=bl.multiplier, r=[list(g) for g in bl.ranking]) for bl in p.ballotLinesEqual],
                names=[p.candidateName.get(c, '') for c in range(1, nc + 1)], title=p.title if p.title is not None else '',
                source=p.source or '', comment=p.comment or '', droop=list(p.options))


def real_outcome(text=None, path=None, budget=5):
    "what the real reader does with the text: ok / err (the package's own error) / crash / timeout"
    old = signal.signal(signal.SIGALRM, _alarm)
    signal.alarm(budget)
    res = dict(out='ok', exc='', prof=dict(none=True))
    p = None
    try:
        p = ElectionProfile(data=text) if path is None else ElectionProfile(path=path)
        res['prof'] = project(p)
    except ElectionProfileError as e:
        res['out'] = 'err'
        res['exc'] = str(e)[:80]
    except _Timeout:
        res['out'] = 'timeout'
    except Exception as e:
        res['out'] = 'crash'
        res['exc'] = type(e).__name__ + ': ' + str(e)[:60]
    finally:
        signal.alarm(0)
        signal.signal(signal.SIGALRM, old)
    ctor_ok = True
    ctor_exc = ''
    if p is not None and res['out'] == 'ok' and not p.options:
        for rule in drive.RULES:
            try:
                Election(p, {'rule': rule})
            except Exception as e:
                ctor_ok = False
                ctor_exc = '%s: %s: %s' % (rule, type(e).__name__, str(e)[:50])
                break
    return res, ctor_ok, ctor_exc


# ----------------------------------------------------------------------------------------
#  well-formed files: an abstract election, a rendering with layout choices, and what it denotes
# ----------------------------------------------------------------------------------------
NAMEPOOL = ['Ann', 'Bob Lee', 'Cid/*x*/Q', 'D#e', 'Éve Ünal', 'F [g]', 'Γιώργος', '(H)', 'I=J', '0', '-1', 'K.', 'Box #7 north', 'L /*m n', 'O */ p #q']


def abstract_election(rng, maxc=6, nc=None):
    nc = nc or rng.randint(2, maxc)
    cands = list(range(1, nc + 1))
    wd = [c for c in cands if rng.random() < 0.2]
    if len(wd) > nc - 1:
        wd = wd[:nc - 1]
    elig = [c for c in cands if c not in wd]
    und = [c for c in elig if rng.random() < 0.15]
    seats = rng.randint(1, len(elig))
    lines = []
    for _ in range(rng.randint(1, 8)):
        k = rng.randint(1, min(nc, 8))
        r = rng.sample(cands, k)
        if nc > 200 and rng.random() < 0.7:
            r[rng.randrange(len(r))] = nc          # the highest candidate id is ranked
            r = list(dict.fromkeys(r))
            k = len(r)
        ranks = []
        i = 0
        eq = rng.random() < 0.25
        while i < k:
            g = rng.randint(1, min(3, k - i)) if eq else 1
            ranks.append(r[i:i + g])
            i += g
        lines.append(dict(m=rng.randint(1, 5), ranks=ranks, bid=None))
    # make sure enough ballots survive the withdrawals
    lines.append(dict(m=len(elig) + rng.randint(0, 3), ranks=[[c] for c in rng.sample(elig, len(elig))], bid=None))
    rng.shuffle(lines)
    use_ids = rng.random() < 0.25
    if use_ids:
        for i, l in enumerate(lines):
            l['bid'] = rng.choice(['b%d', 'id %d', 'x-%d']) % i
            l['m'] = 1
        if sum(1 for l in lines if any(c not in wd for rk in l['ranks'] for c in rk)) < len(elig):
            for l in lines:
                l['bid'] = None
            use_ids = False
            lines[0]['m'] = len(elig) + 2
            lines[0]['ranks'] = [[c] for c in elig]
    tie = rng.sample(cands, nc) if rng.random() < 0.5 else None
    nicks = None
    if rng.random() < 0.4:
        nicks = rng.choice([['n%s%d' % (chr(97 + c % 26), c) for c in cands], ['n%s%d' % (chr(97 + c % 26), c) for c in cands],
                            ['0_%d' % (nc + 1 - c) for c in cands], ['+%d' % (c % nc + 1) for c in cands], ['%dx' % (c % nc + 1) for c in cands]])
    names = [rng.choice(NAMEPOOL) + ' %d' % c if rng.random() < 0.5 else 'c%d' % c for c in cands]
    e = dict(nc=nc, seats=seats, wd=wd, und=und, lines=lines, tie=tie, nicks=nicks, names=names,
             title=rng.choice(['T', 'An Election', 'Élection /* not a comment */ 2010', 'T # x', 'Ward 7 #2 /*x count']),
             source=rng.choice([None, 'src', 'a source']), comment=None, droop=rng.choice([[], [], ['arithmetic=fixed', 'precision=4']]))
    if e['source'] and rng.random() < 0.5:
        e['comment'] = rng.choice(['c', 'a comment here'])
    return e


def denote(e):
    nc = e['nc']
    wd = set(e['wd'])
    lines, eql = [], []
    nb = 0
    for l in e['lines']:
        ranks = [[c for c in rk if c not in wd] for rk in l['ranks']]
        ranks = [rk for rk in ranks if rk]
        if not ranks:
            continue
        nb += l['m']
        if any(len(rk) > 1 for rk in ranks):
            eql.append(dict(m=l['m'], r=ranks))
        else:
            lines.append(dict(m=l['m'], r=[rk[0] for rk in ranks]))
    tie = [0] * nc
    if e['tie']:
        for o, c in enumerate(e['tie'], 1):
            tie[c - 1] = o
    else:
        tie = list(range(1, nc + 1))
    return dict(nCand=nc, nSeats=e['seats'], nBallots=nb, withdrawn=sorted(wd), undeclared=sorted(e['und']), tie=tie,
                nicks=e['nicks'] or [str(c) for c in range(1, nc + 1)], lines=lines, eqlines=eql, names=list(e['names']),
                title=e['title'], source=e['source'] or '', comment=e['comment'] or '', droop=list(e['droop']))


def render_wf(rng, e):
    "a well-formed rendering with random layout: line breaks, nested /* */ and # comments, option placement, -n vs [withdrawn]"
    def sep():
        return rng.choice([' ', ' ', '\n', '  ', '\t', ' /* c */ ', ' /* a /* nested 0 */ "q */ ', '\n# 1 2 0 comment\n', '\n',
                           ' /* ward 7, batch #1 of 2 */ ', ' /* # */ ', ' /* [tie 1 2] (id) -3 */ ', '\n# "x /* y\n'])

    def ref(c):
        if e['nicks'] and rng.random() < 0.6:
            return e['nicks'][c - 1]
        return str(c)
    s = rng.choice(['', '\n', '# leading comment\n', '/* header */ '])
    s += '%d%s%d' % (e['nc'], sep(), e['seats'])
    opts = []
    if e['nicks']:
        opts.append('[nick %s]' % ' '.join(e['nicks']))
    rest = []
    if e['tie']:
        rest.append('[tie %s]' % sep().join(ref(c) for c in e['tie']) if rng.random() < 0.3 else '[tie %s]' % ' '.join(ref(c) for c in e['tie']))
    if e['wd']:
        r0 = rng.random()
        if len(e['wd']) >= 2 and r0 < 0.4:
            # withdrawals may be declared in several places: they accumulate
            k = rng.randint(1, len(e['wd']) - 1)
            first, second = e['wd'][:k], e['wd'][k:]
            a = ' '.join('-%d' % c for c in first) if rng.random() < 0.5 else '[withdrawn %s]' % ' '.join(ref(c) for c in first)
            rest.append(a + ' [withdrawn %s]' % ' '.join(ref(c) for c in second))
        elif r0 < 0.7:
            rest.append('[withdrawn %s]' % ' '.join(ref(c) for c in e['wd']))
        else:
            rest.append(' '.join('-%d' % c for c in e['wd']))
    if e['und']:
        rest.append('[undeclared %s]' % ' '.join(ref(c) for c in e['und']))
    if e['droop']:
        rest.append('[droop %s]' % ' '.join(e['droop']))
    rng.shuffle(rest)
    # withdrawn given as -n must come after the bracketed options that use nicknames only if nick is first: nick always first
    for o in opts + rest:
        s += sep() + o
    for l in e['lines']:
        head = '(%s)' % l['bid'] if l['bid'] is not None else str(l['m'])
        s += sep() + head + ' ' + ' '.join('='.join(ref(c) for c in rk) for rk in l['ranks']) + ' 0'
        if rng.random() < 0.15:
            s += ' # trailing 9 9 0' + rng.choice(['\n', '\n', '\r\n', '\r', '\x0c', '\x85', '\u2028', '\x1c'])
    s += sep() + '0'

    def q(x):
        "a quoted string; its inner blanks may be line breaks (the reader joins the words with single blanks)"
        if rng.random() < 0.3:
            x = ''.join(rng.choice(['\n', ' \n', ' ']) if ch == ' ' else ch for ch in x)
        return '"%s"' % x
    for n in e['names']:
        s += sep() + q(n)
    s += sep() + q(e['title'])
    if e['source']:
        s += sep() + q(e['source'])
        if e['comment']:
            s += sep() + q(e['comment'])
    s += rng.choice(['', '\n', '\n trailing junk 1 2 3', ' # end'])
    return s


# ----------------------------------------------------------------------------------------
#  fuzz: truncations, single-word mutations, soups, unicode
# ----------------------------------------------------------------------------------------
ALPHABET = ['0', '1', '2', '3', '4', '-1', '-2', '-9', '00', '1=2', '2=1=3', '1=1', '=', '[tie', '[nick', '[droop', '[withdrawn', '[undeclared', '[bogus]',
            '1]', '2]', 'a]', ']', '[tie]', '(', ')', '(x)', '(y', 'z)', '"a"', '"b', 'c"', '"', '""', '/*', '*/', '/*x*/', '#', '#x', 'a', 'na', 'nb',
            'x=y', '256', '-0', '+1', '1.5', '٣', '²', '①', '1³', '➁', '2=²', '"t"']
BASES = [
    '3 2 4 1 2 0 3 2 3 0 2 3 0 1 1 3 0 0 "A" "B" "C" "Title"',
    '4 2 [nick na nb nc nd] [tie nd nc nb na] -3 2 na nb 0 1 nb=nc nd 0 3 nd 0 0 "A B" "C" "D" "E" "T" "src" "cmt"',
    '3 1 [withdrawn 2] (a) 1 2 0 (b) 3 0 (c) 1 0 0 "x" "y" "z" "t" /* c */',
    '2 1 # c\n 2 1 0\n 1 2 1 0\n 0 "p" "q"\n "t t"',
]


def edge_texts(rng):
    "near-valid files: option lists of the right length with a repeat, boundary candidate counts, boundary seats/ballots"
    out = []
    for nc in (255, 256, 257):
        names = ' '.join('"n%d"' % i for i in range(1, nc + 1))
        out.append('%d 2 %d %d 1 0 1 %d %d 0 1 2 %d 0 0 %s "big"' % (nc, nc + 5, nc, nc - 1, nc, nc, names))
        out.append('%d 1 %d 1=%d 2 0 0 %s "big eq"' % (nc, nc + 1, nc, names))
    for nc in (3, 4):
        ids = list(range(1, nc + 1))
        body = ' '.join('%d %s 0' % (2, ' '.join(map(str, rng.sample(ids, rng.randint(1, nc))))) for _ in range(nc)) + ' %d %s 0 0 ' % (nc, ' '.join(map(str, ids)))
        names = ' '.join('"c%d"' % i for i in ids) + ' "t"'
        nicks = ['n%s' % chr(96 + i) for i in ids]
        for _ in range(12):
            perm = rng.sample(ids, nc)
            dup = list(perm)
            dup[rng.randrange(nc)] = dup[(rng.randrange(nc) + 1) % nc] if nc > 1 else dup[0]
            longer = perm + [rng.choice(ids)]
            for tie in (perm, dup, perm[:-1], longer):
                out.append('%d 1 [tie %s] %s %s' % (nc, ' '.join(map(str, tie)), body, names))
                out.append('%d 1 [nick %s] [tie %s] %s %s' % (nc, ' '.join(nicks), ' '.join(nicks[c - 1] for c in tie), body, names))
            dn = list(nicks)
            dn[rng.randrange(nc)] = dn[0]
            out.append('%d 1 [nick %s] %s %s' % (nc, ' '.join(dn), body, names))
            w = rng.choice(ids)
            out.append('%d 1 [withdrawn %d %d] %s %s' % (nc, w, w, body, names))
            out.append('%d 1 -%d [withdrawn %d] %s %s' % (nc, w, w, body, names))
            out.append('%d 1 [undeclared %d %d] %s %s' % (nc, w, rng.choice(ids), body, names))
            out.append('%d 1 [withdrawn %d] %s %s' % (nc, nc + 1, body, names))
            out.append('%d %d %s %s' % (nc, rng.choice([0, nc, nc + 1]), body, names))
            out.append('%d %d -%d %s %s' % (nc, nc, w, body, names))                 # seats = candidates listed, one withdrawn
            out.append('%d %d [withdrawn %s] %s %s' % (nc, nc - 1, ' '.join(map(str, ids[:2])), body, names))
            out.append('%d 1 [withdrawn %s] %s %s' % (nc, ' '.join(map(str, ids)), body, names))       # everybody withdrawn
            out.append('%d 1 -%d %d %d 0 0 %s' % (nc, w, 1, w, names))
            out.append('%d 1 (a) 1 0 (a) 2 0 (b) %s 0 0 %s' % (nc, ' '.join(map(str, ids)), names))
            out.append('%d 1 2 1 1 0 %s %s' % (nc, body, names))
            out.append('%d 1 2 1=1 2 0 %s %s' % (nc, body, names))
    return out


def fuzz_texts(rng, n):
    out = []
    for base in BASES:
        ws = base.split()
        for k in range(len(ws) + 1):
            out.append(' '.join(ws[:k]))
    while len(out) < n:
        base = rng.choice(BASES)
        ws = base.split(' ')
        r = rng.random()
        if r < 0.25:
            i = rng.randrange(len(ws))
            del ws[i]
        elif r < 0.55:
            ws[rng.randrange(len(ws))] = rng.choice(ALPHABET)
        elif r < 0.8:
            ws.insert(rng.randrange(len(ws) + 1), rng.choice(ALPHABET))
        elif r < 0.9:
            ws = [rng.choice(ALPHABET) for _ in range(rng.randint(1, 12))]
        else:
            ws = [''.join(chr(rng.choice([rng.randint(32, 126), rng.randint(0x400, 0x4ff), 0x660 + rng.randint(0, 9), 10, 9, 0x2028, 0xfeff]))
                          for _ in range(rng.randint(1, 6))) for _ in range(rng.randint(1, 8))]
        out.append(rng.choice([' ', '\n', ' ']).join(ws))
    return out


CORE = ['0', '-0', '1', '-1', '9', '1=2', '[tie', '[withdrawn', '2]', ']', '(a)', '(b', '"x', 'y"', '#', '/*', '*/', '=', 'x', '+1']


def systematic_texts(alphabet=None, bases=None):
    "every single-word insertion, substitution and deletion at every position of the base files (no sampling)"
    out = []
    for base in (bases or BASES):
        ws = base.split(' ')
        for i in range(len(ws) + 1):
            for a in (alphabet or CORE):
                out.append(' '.join(ws[:i] + [a] + ws[i:]))
                if i < len(ws) and ws[i] != a:
                    out.append(' '.join(ws[:i] + [a] + ws[i + 1:]))
            if i < len(ws):
                out.append(' '.join(ws[:i] + ws[i + 1:]))
    return out
