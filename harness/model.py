"""
Model checking of spec/Droop.tla and the spec -> code replay of the cases TLC exports.
No top-level driver code.
"""
import json, re, itertools
import drive, vlib

ALL_DEVS = ['DEV_PRF_B1', 'DEV_PRF_B4', 'DEV_SC_52_2', 'DEV_MPLS_C']
DEV_FINDING = {'DEV_PRF_B1': 'F13', 'DEV_PRF_B4': 'F14', 'DEV_SC_52_2': 'F15', 'DEV_MPLS_C': 'F16'}
GREG_CHECK = ['C01', 'C02', 'C04', 'C05', 'C06', 'C07', 'C09', 'C18']
MEEK_CHECK = ['C01', 'C02', 'C04', 'C05', 'C07', 'C08', 'C09', 'C18']
QPQ_CHECK = ['C01', 'C02', 'C04', 'C05', 'C07', 'C09', 'C18']


def cfgrec(rule, kind='fixed', p=4, g=0, intq=False, batch='', omega10=0):
    return dict(rule=rule, kind=kind, p=p, g=g, intq=intq, batch=batch, omega10=omega10)


STATUTORY_CFG = {
    'wigm-prf': cfgrec('wigm-prf', p=4), 'wigm-prf-batch': cfgrec('wigm-prf-batch', p=4),
    'scotland': cfgrec('scotland', p=5), 'mpls': cfgrec('mpls', p=4),
    'cfer': cfgrec('cfer', p=5), 'cfer-batch': cfgrec('cfer-batch', p=5),
}


def tla(v):
    if isinstance(v, bool):
        return 'TRUE' if v else 'FALSE'
    if isinstance(v, int):
        return str(v)
    if isinstance(v, str):
        return '"%s"' % v
    if isinstance(v, dict):
        return '[' + ', '.join('%s |-> %s' % (k, tla(x)) for k, x in v.items()) + ']'
    if isinstance(v, (list, tuple)):
        return '<<' + ', '.join(tla(x) for x in v) + '>>'
    if isinstance(v, (set, frozenset)):
        return '{' + ', '.join(tla(x) for x in sorted(v, key=str)) + '}'
    raise TypeError(v)


def mc_run(configs, nc=3, maxb=4, maxm=2, seatset=(1, 2), ties=None, wds=((),), unds=((),), devs=ALL_DEVS,
           check=GREG_CHECK, export=0, liveness=False, devneutral=False, lemmas=(), workers=16, heap_mb=4096, timeout=3600, simulate=None, extra=()):
    ties = ties if ties is not None else [tuple(range(1, nc + 1))]
    mc = ['---- MODULE MC ----', 'EXTENDS Droop',
          'MC_CONFIGS == ' + tla(set()) if not configs else 'MC_CONFIGS == {' + ', '.join(tla(c) for c in configs) + '}',
          'MC_TIES == {' + ', '.join(tla(list(t)) for t in ties) + '}',
          'MC_WD == {' + ', '.join(tla(set(w)) for w in wds) + '}',
          'MC_UND == {' + ', '.join(tla(set(w)) for w in unds) + '}',
          'MC_DEVS == ' + tla(set(devs)),
          'MC_CHECK == ' + tla(set(check)),
          'MC_KNOWNCL == ' + tla(set('KNOWN_' + e['id'] for e in vlib.load_known() if e.get('kind') == 'finding')),
          '====']
    cfg = ['SPECIFICATION %s' % ('FairSpec' if liveness else 'Spec'),
           'INVARIANT PropsHold', 'INVARIANT Bounded', 'INVARIANT Exported'] + (['INVARIANT DevNeutral'] if devneutral else []) + ['INVARIANT ' + l for l in lemmas]
    if liveness:
        cfg.append('PROPERTY Terminates')
    cfg += ['CONSTANTS', ' CONFIGS <- MC_CONFIGS', ' NC = %d' % nc, ' MAXB = %d' % maxb, ' MAXM = %d' % maxm,
            ' SEATSET = {%s}' % ', '.join(map(str, seatset)), ' TIESET <- MC_TIES', ' WDSET <- MC_WD', ' UNDSET <- MC_UND',
            ' DEVS <- MC_DEVS', ' CHECK <- MC_CHECK', ' KNOWNCL <- MC_KNOWNCL', ' EXPORT = %d' % export]
    res = vlib.tlc('MC', '\n'.join(cfg) + '\n', workers=workers, heap_mb=heap_mb, timeout=timeout,
                   mc_text='\n'.join(mc) + '\n', simulate=simulate, extra=extra)
    return res


_CASE = re.compile(r'^"CASE (.*)"\s*$', re.M)


def cases_of(out):
    cs = []
    for m in _CASE.finditer(out):
        txt = m.group(1).replace('\\"', '"').replace('\\\\', '\\')
        cs.append(json.loads(txt))
    return cs


_FAILS = re.compile(r'^"(FAILS|DEVDIFF|METAFAIL) (.*)"\s*$', re.M)


def fails_of(out):
    "the JSON payloads printed by a violated PropsHold / DevNeutral invariant"
    res = []
    for m in _FAILS.finditer(out):
        res.append((m.group(1), json.loads(m.group(2).replace('\\"', '"').replace('\\\\', '\\'))))
    return res


def invariant_violation(out):
    "returns (invariant name, last state text) if TLC reports an invariant violation"
    m = re.search(r'Error: Invariant (\w+) is violated', out)
    if not m:
        if 'Temporal properties were violated' in out:
            return ('Terminates', out[-2000:])
        return None
    return (m.group(1), out[out.index(m.group(0)):][:6000])


def header_to_input(h):
    "BLT text + options + lowprec for a model header"
    nc = h['nc']
    wd = [c for c in range(1, nc + 1) if h['wd'][c - 1]]
    und = [c for c in range(1, nc + 1) if h['und'][c - 1]]
    tie = sorted(range(1, nc + 1), key=lambda c: h['tie'][c - 1])
    lines = [(l['m'], l['r']) for l in h['lines']]
    blt = drive.mkblt(nc, h['seats'], lines, tie=tie, withdrawn=wd, undeclared=und)
    rule = h['rule']
    opts = dict(rule=rule)
    lp = None
    if rule in ('wigm', 'meek', 'warren'):
        if h['kind'] == 'integer':
            opts['arithmetic'] = 'integer'
        else:
            opts['arithmetic'] = h['kind']
            opts['precision'] = h['p']
            if h['kind'] == 'guarded':
                opts['guard'] = h['g']
        if rule == 'wigm':
            if h['intq']:
                opts['integer_quota'] = True
            if h['batch']:
                opts['defeat_batch'] = h['batch']
        else:
            opts['omega'] = h['omega10']
            if h['batch']:
                opts['defeat_batch'] = h['batch']
    elif rule in STATUTORY_CFG and h['p'] != STATUTORY_CFG[rule]['p']:
        lp = (h['p'], None, None)           # reduced-precision variant of the statutory procedure
    elif rule == 'meek-prf':
        if (h['p'], h['omega10']) != (9, 6):
            lp = (h['p'], None, h['omega10'])
    elif rule == 'qpq':
        if (h['p'], h['g']) != (9, 9):
            lp = (h['p'], h['g'], None)
    return blt, opts, lp


C03_FIELDS = ['tag', 'subj', 'round', 'quota', 'st', 'pend', 'vote', 'kf', 'quot', 'nt', 'residual']
IMPL_FIELDS = ['mc', 'tiekind', 'surplus', 'votes', 'va', 'tx', 'bal']


def norm_act(a):
    d = dict(a)
    d['subjs'] = sorted(a.get('subjs') or [])
    d['tied'] = sorted(a.get('tied') or [])
    d['bal'] = [(b['ix'], b['w']) for b in (a.get('bal') or [])]
    return d


def compare_acts(exp, got, fields):
    "first difference between expected (spec) and observed (code) action lists, or None"
    for k in range(max(len(exp), len(got))):
        if k >= len(exp):
            return dict(index=k + 1, field='(length)', expected='end of count', observed=got[k]['tag'])
        if k >= len(got):
            return dict(index=k + 1, field='(length)', expected=exp[k]['tag'], observed='end of count')
        e, g = norm_act(exp[k]), norm_act(got[k])
        for f in fields + ['subjs', 'tied']:
            if e.get(f) != g.get(f):
                return dict(index=k + 1, field=f, expected=e.get(f), observed=g.get(f), tag=g.get('tag'))
    return None


def replay_case(case, fields=None):
    "run the real code on the case's input; return (difference or None, trace)"
    h = case['h']
    blt, opts, lp = header_to_input(h)
    T = drive.run_count(blt, opts, lowprec=lp, iters=False)
    if T['outcome'] != 'ok' and not (T['outcome'] == 'exc' and T['exc'] == 'AssertionError' and T['acts'] and T['acts'][-1]['tag'] == 'end'):
        return dict(index=0, field='outcome', expected='ok', observed=T['outcome'] + ' ' + T['exc']), T, (blt, opts, lp)
    Nt = drive.to_native(T)
    if Nt is None:
        return dict(index=0, field='encoding', expected='native', observed='not encodable'), T, (blt, opts, lp)
    fields = fields or (C03_FIELDS + IMPL_FIELDS)
    if h['fam'] == 'meek':
        fields = [f for f in fields if f != 'bal']
    return compare_acts(case['acts'], Nt['acts'], fields), T, (blt, opts, lp)
