------------------------------- MODULE MCNum --------------------------------
(***************************************************************************)
(* The arithmetic every rule specification relies on (Election.tla: VMul,  *)
(* VDiv, VMulUp, VDivUp, VMulDiv, tolerance comparisons; Props.tla:        *)
(* MulDivQR / MulDivSlow) satisfies the relational laws of Num.tla on an   *)
(* operand grid: the oracle of C01-C11 is checked by the laws of C12/C13.  *)
(***************************************************************************)
EXTENDS Election, Num

Grid == (0 .. 40) \cup {49, 50, 51, 97, 99, 100, 101, 333, 999, 1000, 1001, 2500, 9999, 10000, 33333, 46340, 46341, 65536, 100000, 1234567}
Divs == (1 .. 25) \cup {50, 99, 100, 101, 1000, 10001, 30000, 100000, 3000000}
Scales == {1, 10, 100, 1000, 100000}
Geps == {1, 5, 50}

VARIABLE x
Init == x \in Grid \X Grid \X Divs
Next == UNCHANGED x
a == x[1]
b == x[2]
c == x[3]
Fits == b = 0 \/ a <= 2147483647 \div b
ResultFits == (a \div c) + 1 <= 2147483647 \div (b + 1)      \* the quotient itself fits 32 bits (domain of MulDivSlow)

(* the bit-serial multiply-divide never forms a*b and agrees with the direct computation wherever that fits *)
SlowAgrees == Fits => MulDivSlow(a, b, c) = <<(a * b) \div c, (a * b) % c>>
(* ... and satisfies the defining relation a*b = q*c + r, 0 <= r < c, stated without the product where it does not fit *)
SlowRelation == ResultFits => LET qr == MulDivSlow(a, b, c) IN 0 <= qr[2] /\ qr[2] < c /\ (Fits => qr[1] * c + qr[2] = a * b)
FixedOps == \A S \in Scales : Fits /\ a <= 2147483647 \div S =>
              LET h == [S |-> S] IN
              /\ IsFloorDiv(VMul(h, a, b), a * b, S)
              /\ IsRounded(VMulUp(h, a, b), a * b, S, "up")
              /\ IsFloorDiv(VDiv(h, a, c), a * S, c)
              /\ IsRounded(VDivUp(h, a, c), a * S, c, "up")
              /\ IsFloorDiv(VMulDiv(h, a, b, c), a * b, c)
Comparisons == \A g \in Geps :
                 LET h == [geps |-> g]
                     R == [cls |-> IF g = 1 THEN "fixed" ELSE "guarded", geps |-> g]
                     w == CmpWant(R, a, b)
                 IN <<VLT(h, a, b), VLE(h, a, b), VEQ(h, a, b), ~VEQ(h, a, b), VGT(h, a, b), VGE(h, a, b)>> = w
                    /\ Cardinality({k \in {1, 3, 5} : w[k]}) = 1
=============================================================================
