------------------------------ MODULE TraceBlt ------------------------------
(***************************************************************************)
(* Code -> spec for the ballot-file reader: each record holds the words of *)
(* one text, what the real ElectionProfile did with it, and (for           *)
(* generated well-formed files) the election the file denotes.             *)
(* X = [id, words, real = [out, prof], ctor_ok, want (or [none |-> TRUE])] *)
(***************************************************************************)
EXTENDS Blt, Json, IOUtils, TLCExt
CONSTANTS NW
Recs == ndJsonDeserialize(IOEnv.TRACE_FILE)
VARIABLE i
Init == i \in 1 .. NW
Next == i + NW <= Len(Recs) /\ i' = i + NW

SeqSet(q) == {q[k] : k \in DOMAIN q}
(* projection of the model's profile to the shape the harness records from the real object *)
Proj(p) ==
  [nCand |-> p.nCand, nSeats |-> p.nSeats, nBallots |-> p.nBallots,
   withdrawn |-> p.withdrawn, undeclared |-> p.undeclared,
   tie |-> IF p.hasTie THEN [c \in 1 .. p.nCand |-> p.tie[c]] ELSE [c \in 1 .. p.nCand |-> c],
   nicks |-> IF p.nicks # <<>> THEN p.nicks ELSE [c \in 1 .. p.nCand |-> ToString(c)],
   lines |-> p.lines, eqlines |-> p.eqlines, names |-> p.names, title |-> p.title,
   source |-> p.source, comment |-> p.comment, droop |-> p.droop]
RealProj(r) ==
  [nCand |-> r.nCand, nSeats |-> r.nSeats, nBallots |-> r.nBallots,
   withdrawn |-> SeqSet(r.withdrawn), undeclared |-> SeqSet(r.undeclared),
   tie |-> r.tie, nicks |-> r.nicks, lines |-> r.lines, eqlines |-> r.eqlines, names |-> r.names, title |-> r.title,
   source |-> r.source, comment |-> r.comment, droop |-> r.droop]
DiffFields(a, b) == {f \in DOMAIN a : a[f] # b[f]}

(* the real profile in the vocabulary of ValidProfile *)
AsProf(r) == [nCand |-> r.nCand, nSeats |-> r.nSeats, nBallots |-> r.nBallots, withdrawn |-> SeqSet(r.withdrawn),
              lines |-> r.lines, eqlines |-> r.eqlines]

Fails(X) ==
  LET m == Parse(X.words) IN
  (* C16: any text is either a valid profile or a clean profile error *)
  (IF X.real.out \in {"ok", "err"} THEN {}
   ELSE IF m.out = "crash" THEN {"C16:KNOWN_crash"} ELSE {"C16:unclean_failure"}) \cup
  (IF X.real.out = "ok" /\ ~ValidProfile(AsProf(X.real.prof))
   THEN (IF m.out = "ok" /\ ~ValidProfile(m.prof) THEN {"C16:KNOWN_invalid_profile"} ELSE {"C16:invalid_profile"}) ELSE {}) \cup
  (* C15, second sentence: no accepted profile breaks the profile invariants (the same observation, claimed by both properties) *)
  (IF X.real.out = "ok" /\ ~ValidProfile(AsProf(X.real.prof))
   THEN (IF m.out = "ok" /\ ~ValidProfile(m.prof) THEN {"C15:KNOWN_invalid_profile"} ELSE {"C15:accepted_invalid_profile"}) ELSE {}) \cup
  (IF X.real.out = "ok" /\ X.real.prof.droop = <<>> /\ ~X.ctor_ok
   THEN (IF m.out = "ok" /\ ~ValidProfile(m.prof) THEN {"C16:KNOWN_constructor_fails"} ELSE {"C16:constructor_fails"}) ELSE {}) \cup
  (* binding: the reader specification and the code agree on the outcome and on every field *)
  (IF m.out # X.real.out /\ ~(m.out = "crash" /\ X.real.out = "crash") THEN {"BIND:outcome_" \o m.out \o "_vs_" \o X.real.out} ELSE {}) \cup
  (IF m.out = "ok" /\ X.real.out = "ok" THEN {"BIND:" \o f : f \in DiffFields(Proj(m.prof), RealProj(X.real.prof))} ELSE {}) \cup
  (* C15: a well-formed file is read as the election it denotes *)
  (IF "none" \in DOMAIN X.want THEN {}
   ELSE IF X.real.out # "ok" THEN {"C15:rejected_" \o (IF m.out = "err" /\ X.kf # "" THEN "KNOWN_" \o X.kf ELSE "wellformed")}
   ELSE {"C15:" \o f : f \in DiffFields(RealProj(X.want), RealProj(X.real.prof))})

Judged == IF i <= Len(Recs)
          THEN (IF Fails(Recs[i]) = {} THEN TRUE ELSE PrintT(ToString(<<"BLT", Recs[i].id, Fails(Recs[i])>>)))
               /\ (IF i + NW > Len(Recs) THEN PrintT(ToString(<<"BLTDONE", i>>)) ELSE TRUE)
          ELSE TRUE
=============================================================================
