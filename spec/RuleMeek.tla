------------------------------ MODULE RuleMeek ------------------------------
(***************************************************************************)
(* meek, warren (droop/rules/meek.py) and meek-prf (meek_prf.py).          *)
(* Clause ids for meek-prf: PRF Reference Meek rule (A, B.1-B.4, C) as     *)
(* quoted in meek_prf.py; for meek/warren the step names of meek.py (D.3   *)
(* quota, D.4 winners, D.6 surplus, D.7 tests, D.8 keep factors).          *)
(* A step runs up to the next logAction; the iterations in between are     *)
(* internal, and each continuing iteration leaves a snapshot in `iters'    *)
(* (the same snapshot the harness takes at the first V.div of D.8/B.2.f).  *)
(***************************************************************************)
EXTENDS Election

IsPrfM(h) == h.rule = "meek-prf"
Rounds(h) == h.kind # "guarded" \/ h.g = 0          \* Guarded with guard digits ignores round='up'
MMulUp(h, a, b) == IF Rounds(h) THEN VMulUp(h, a, b) ELSE VMul(h, a, b)
MDivUp(h, a, b) == IF Rounds(h) THEN VDivUp(h, a, b) ELSE VDiv(h, a, b)
Eps(h) == IF h.exactq THEN 0 ELSE 1

M_Quota(h, votes) == VDiv(h, votes, VInt(h, h.seats + 1)) + Eps(h)        \* D.3 / B.2.b
M_HasQuota(s, c) == IF s.h.exactq THEN VGT(s.h, s.vote[c], s.quota) ELSE s.vote[c] >= s.quota
M_Complete(s) == Cardinality(HopefulS(s)) <= SeatsLeft(s) \/ SeatsLeft(s) <= 0

(* keep value and remaining weight of one ballot at one candidate *)
KeepW(h, kf, w) ==
  IF h.rule = "warren" THEN LET keep == IF VLT(h, kf, w) THEN kf ELSE w IN <<keep, w - keep>>
  ELSE IF h.rule = "meek" THEN <<VMul(h, w, kf), VMul(h, w, h.S - kf)>>                    \* OpenSTV MeekSTV variant
  ELSE LET keep == MMulUp(h, w, kf) IN <<keep, w - keep>>                                   \* PRF B.2.a

RECURSIVE DistStrict(_, _, _, _, _, _)
DistStrict(h, kf, r, i, w, acc) ==
  IF i > Len(r) \/ w <= 0 THEN acc
  ELSE LET c == r[i] IN
       IF kf[c] = 0 THEN DistStrict(h, kf, r, i + 1, w, acc)
       ELSE LET kw == KeepW(h, kf[c], w) IN DistStrict(h, kf, r, i + 1, kw[2], [acc EXCEPT ![c] = @ + kw[1]])

(* ballots with equal rankings (meek/warren only): recursive descent of meek.py dist();      *)
(* IMPL: a rank without continuing candidates stops the descent (the rest goes to residual) *)
RECURSIVE DistEq(_, _, _, _, _, _, _)
RECURSIVE DistEqFold(_, _, _, _, _, _, _, _, _)
DistEq(h, kf, cset, r, i, w, acc) ==
  IF w = 0 \/ i > Len(r) THEN acc
  ELSE LET cids == SelectSeq(r[i], LAMBDA c : c \in cset) IN
       IF cids = <<>> THEN acc
       ELSE DistEqFold(h, kf, cset, r, i, cids, 1, VDiv(h, w, VInt(h, Len(cids))), acc)
DistEqFold(h, kf, cset, r, i, cids, k, cw, acc) ==
  IF k > Len(cids) THEN acc
  ELSE LET c == cids[k]
           kw == KeepW(h, kf[c], cw)
           a1 == [acc EXCEPT ![c] = @ + kw[1]]
           a2 == DistEq(h, kf, cset, r, i + 1, kw[2], a1)
       IN DistEqFold(h, kf, cset, r, i, cids, k + 1, cw, a2)

Distribute(s) ==
  LET h == s.h
      cont == HopefulS(s) \cup ElectedS(s)
      zero == [c \in CandS(s) |-> 0]
      keptS == TLCEval([j \in 1 .. Len(h.lines) |-> DistStrict(h, s.kf, h.lines[j].r, 1, h.S, zero)])
      neq == IF IsPrfM(h) THEN 0 ELSE Len(h.eq)      \* IMPL: meek-prf never reads ballots with equal rankings
      keptE == TLCEval([j \in 1 .. neq |-> DistEq(h, s.kf, cont, h.eq[j].r, 1, h.S, zero)])
      nv == TLCEval([c \in CandS(s) |->
               IF c \in cont
               THEN Sum([j \in 1 .. Len(h.lines) |-> keptS[j][c] * h.lines[j].m]) + Sum([j \in 1 .. neq |-> keptE[j][c] * h.eq[j].m])
               ELSE s.vote[c]])
  IN [s EXCEPT !.vote = nv, !.residual = h.n * h.S - Sum([c \in CandS(s) |-> IF c \in cont THEN nv[c] ELSE 0])]

ContVotes(s) == Sum([c \in CandS(s) |-> IF c \in HopefulS(s) \cup ElectedS(s) THEN s.vote[c] ELSE 0])
ElectedSurplus(s) == Sum([c \in CandS(s) |-> IF c \in ElectedS(s) THEN s.vote[c] - s.quota ELSE 0])

(* sure losers at the current surplus (meek.batchDefeat): same grouping as PRF-WIGM B.2 *)
RECURSIVE MGroupFold(_, _, _, _, _, _, _)
MGroupFold(h, v, q, i, cv, gs, sur) ==
  IF i > Len(q) THEN gs
  ELSE LET c == q[i] IN
       IF VGE(h, cv + sur, v[c]) THEN MGroupFold(h, v, q, i + 1, cv, [gs EXCEPT ![Len(gs)] = Append(@, c)], sur)
       ELSE MGroupFold(h, v, q, i + 1, v[c], IF gs[Len(gs)] = <<>> THEN [gs EXCEPT ![Len(gs)] = <<c>>] ELSE Append(gs, <<c>>), sur)
RECURSIVE MScanGroups(_, _, _, _, _, _, _, _, _)
MScanGroups(h, v, gs, g, ncand, vote, maxg, maxDefeat, sur) ==
  IF g > Len(gs) - 1 THEN maxg
  ELSE LET n2 == ncand + Len(gs[g]) IN
       IF n2 > maxDefeat THEN maxg
       ELSE LET v2 == vote + Sum([i \in 1 .. Len(gs[g]) |-> v[gs[g][i]]]) IN
            MScanGroups(h, v, gs, g + 1, n2, v2, IF VLT(h, v2 + sur, v[gs[g + 1][1]]) THEN g ELSE maxg, maxDefeat, sur)
RECURSIVE MConcat(_, _)
MConcat(gs, k) == IF k = 0 THEN <<>> ELSE MConcat(gs, k - 1) \o gs[k]
M_Batch(s, sur) ==
  IF s.h.batch = "none" THEN <<>>
  ELSE LET g0 == MGroupFold(s.h, s.vote, ByVoteAsc(s.vote, HopefulS(s)), 1, 0, << <<>> >>, sur)
           gs == IF g0 = << <<>> >> THEN <<>> ELSE g0
           maxg == MScanGroups(s.h, s.vote, gs, 1, 0, 0, 0, Cardinality(HopefulS(s)) - SeatsLeft(s), sur)
       IN MConcat(gs, maxg)

IterSnap(s) == [vote |-> s.vote, kf |-> s.kf, quota |-> s.quota, votes |-> s.votes, surplus |-> s.surplus, residual |-> s.residual]
LogI(s, tag, mc, subj) ==      \* Log that also delivers the internal-iteration snapshots gathered since the previous action
  LET s1 == Log(s, tag, mc, subj) IN
  [s1 EXCEPT !.hist[Len(s1.hist)].iters = s.its, !.its = <<>>]
UpdateKf(s) == [s EXCEPT !.kf = [c \in CandS(s) |-> IF c \in ElectedS(s)
                                   THEN MDivUp(s.h, MMulUp(s.h, s.kf[c], s.quota), s.vote[c]) ELSE s.kf[c]]]   \* D.8 / B.2.f
ZeroOut(s, c) == [s EXCEPT !.kf[c] = 0, !.vote[c] = 0]

M_Finish(s) == [s EXCEPT !.pc = "finish", !.flag = FALSE]
M_FinishStep(s) ==
  IF HopefulS(s) # {}
  THEN LET c == SetOrder(HopefulS(s))[1] IN
       IF Cardinality(ElectedS(s)) < s.h.seats
       THEN LET s1 == LogI([s EXCEPT !.st[c] = "E", !.pend[c] = FALSE], "elect", "elect_remaining", c) IN
            IF IsPrfM(s.h) THEN s1 ELSE Distribute(s1)                       \* meek.py: distributeVotes() for reporting
       ELSE LET s1 == ZeroOut(LogI([s EXCEPT !.st[c] = "D"], "defeat", "defeat_remaining", c), c) IN
            IF IsPrfM(s.h) THEN s1 ELSE Distribute(s1)
  ELSE LET v == Sum([c \in CandS(s) |-> IF c \in ElectedS(s) THEN s.vote[c] ELSE 0])
           s1 == [s EXCEPT !.votes = v, !.residual = s.h.n * s.h.S - v]
       IN [LogI(s1, "end", "end", 0) EXCEPT !.pc = "done"]

M_Loop(s) ==
  IF IF IsPrfM(s.h) THEN Cardinality(HopefulS(s)) > SeatsLeft(s) /\ SeatsLeft(s) > 0 ELSE ~M_Complete(s)
  THEN [LogI([s EXCEPT !.round = s.round + 1], "round", "round", 0)
          EXCEPT !.pc = "iter", !.istat = IF IsPrfM(s.h) THEN "iterate" ELSE "none", !.last = s.h.n * s.h.S]
  ELSE M_FinishStep(M_Finish(s))

(* D / B.3: exclude the lowest candidate; candidates within the surplus of the lowest are tied *)
M_DefeatLow(s) ==
  IF HopefulS(s) = {} THEN M_Loop(s)
  ELSE LET low == TrueMin(s.vote, HopefulS(s))
           margin == IF VGE(s.h, s.surplus, 0) THEN s.surplus ELSE 0      \* a negative surplus widens nothing (meek.py, repaired defect F22)
           tied == {c \in HopefulS(s) : VGE(s.h, low + margin, s.vote[c])}
           lc == FirstInTieOrder(s, tied)
       IN IF Cardinality(tied) > 1 /\ ~s.flag
          THEN LET s1 == LogTie(s, "tie", "defeat", tied, lc) IN
               [s1 EXCEPT !.hist[Len(s1.hist)].iters = s.its, !.its = <<>>, !.pc = "defeatlow", !.flag = TRUE]
          ELSE LET s1 == ZeroOut(LogI([s EXCEPT !.st[lc] = "D"], "defeat", IF s.istat = "omega" THEN "defeat_omega" ELSE "defeat_stable", lc), lc)
                   s2 == IF IsPrfM(s.h) THEN s1 ELSE Distribute(s1)
               IN [s2 EXCEPT !.pc = "loop", !.flag = FALSE]

(* one iteration from its top.  An iteration that neither elects nor ends the round is an *)
(* internal step: it updates the keep factors, leaves a snapshot in `its' and logs nothing *)
M_Continue(s1, sur) == [UpdateKf([s1 EXCEPT !.last = sur, !.its = Append(@, IterSnap(s1))]) EXCEPT !.pc = "iter"]
M_AfterElect(s) ==
  LET sur0 == ElectedSurplus(s)
      sur == IF IsPrfM(s.h) /\ sur0 < 0 THEN 0 ELSE sur0
      s1 == TLCEval([s EXCEPT !.surplus = sur])
  IN IF s.istat = "elected"
     THEN (IF IsPrfM(s.h) THEN M_Loop([s1 EXCEPT !.pc = "loop"])
           ELSE [LogI(s1, "iterate", "iterate_elected", 0) EXCEPT !.pc = "loop"])
     ELSE IF IsPrfM(s.h)
     THEN (IF VLT(s.h, sur, s.h.omega) THEN M_DefeatLow([s1 EXCEPT !.istat = "omega", !.pc = "defeatlow"])              \* B.2.e
           ELSE IF VGE(s.h, sur, s.last) THEN M_DefeatLow([s1 EXCEPT !.istat = "stable", !.pc = "defeatlow", !.logs = Append(@, "log_stable")])
           ELSE M_Continue(s1, sur))
     ELSE (IF VLE(s.h, sur, s.h.omega) THEN [LogI(s1, "iterate", "iterate_omega", 0) EXCEPT !.pc = "defeatlow", !.istat = "omega"]   \* D.7
           ELSE IF VGE(s.h, sur, s.last)
           THEN [LogI([s1 EXCEPT !.logs = Append(@, "log_stable")], "iterate", "iterate_stable", 0) EXCEPT !.pc = "defeatlow", !.istat = "stable"]
           ELSE LET batch == M_Batch(s1, sur) IN
                IF batch # <<>>
                THEN [LogI(s1, "iterate", "iterate_batch", 0) EXCEPT !.pc = "batch", !.q = SetOrder(SeqToSet(batch))]
                ELSE M_Continue(s1, sur))
M_ElectPhase(s) ==
  LET L == SelectSeq(SetOrder(HopefulS(s)), LAMBDA c : M_HasQuota(s, c)) IN                 \* D.4 / B.2.c (IMPL: set order)
  IF L # <<>> THEN [LogI([s EXCEPT !.st[L[1]] = "E", !.pend[L[1]] = FALSE], "elect", "elect", L[1]) EXCEPT !.pc = "iter_elect", !.istat = "elected"]
  ELSE M_AfterElect(s)
M_Iter(s) ==
  LET s1 == TLCEval(Distribute(s))
      v == ContVotes(s1)
      s2 == TLCEval([s1 EXCEPT !.votes = v, !.quota = M_Quota(s.h, v)])
  IN M_ElectPhase(s2)

M_FirstPrefs(s) ==
  LET h == s.h IN
  [c \in CandS(s) |->
     Sum([j \in 1 .. Len(h.lines) |-> IF h.lines[j].r[1] = c THEN h.lines[j].m * h.S ELSE 0])
     + Sum([j \in 1 .. (IF IsPrfM(h) THEN 0 ELSE Len(h.eq)) |-> IF c \in SeqToSet(h.eq[j].r[1]) THEN (h.S \div Len(h.eq[j].r[1])) * h.eq[j].m ELSE 0])]

Step_meek(s) ==
  CASE s.pc = "start" ->
         LET s1 == [s EXCEPT !.kf = [c \in CandS(s) |-> IF s.st[c] = "H" THEN s.h.S ELSE 0],
                             !.votes = s.h.n * s.h.S, !.quota = M_Quota(s.h, s.h.n * s.h.S), !.vote = M_FirstPrefs(s)]
         IN [LogI(s1, "begin", "begin", 0) EXCEPT !.pc = "loop"]
    [] s.pc = "loop" -> M_Loop(s)
    [] s.pc = "iter" -> M_Iter(s)
    [] s.pc = "iter_elect" -> M_ElectPhase(s)
    [] s.pc = "batch" ->
         IF s.q # <<>>
         THEN LET c == s.q[1] IN
              [Distribute(ZeroOut(LogI([s EXCEPT !.st[c] = "D"], "defeat", "defeat_certain", c), c)) EXCEPT !.q = Tail(s.q)]
         ELSE M_Loop(s)
    [] s.pc = "defeatlow" -> M_DefeatLow(s)
    [] s.pc = "finish" -> M_FinishStep(s)
=============================================================================
