---- MODULE RuleMeek ----
EXTENDS Election
Step_meek(s) == s
====
