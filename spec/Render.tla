------------------------------- MODULE Render -------------------------------
(***************************************************************************)
(* C18 (renderings): report(), dump() and json() are derived from the      *)
(* election record and agree with it and with one another.                 *)
(* The harness parses each rendering into fields; this module states what  *)
(* those fields must be, given the record.  All figures are strings: the   *)
(* printed form str(value) of the recorded in-memory value (C14).          *)
(* X = [method, quota_name, ecids, cids, name, acts, dump, json, report]   *)
(*   acts[k]  = [tag, msg, round, quota, votes, nt, residual, surplus,     *)
(*               cs = [cid |-> [state, code, vote, kf, quot, pend]]]      *)
(*   dump     = [hdr, rows]           rows[k] = sequence of fields         *)
(*   json[k]  = same shape as acts[k] as read back from the JSON text      *)
(*   report   = [blocks]  blocks[j] = [msg, cand = << [label, names, fig] >>, quota] *)
(***************************************************************************)
EXTENDS Integers, Sequences, FiniteSets, TLC

MessageRow(a) == a.tag \in {"round", "log", "iterate"}
ToS(n) == ToString(n)

(* --- dump --- *)
DumpHeader(X) ==
  <<"R", "Action", "Quota">> \o
  (IF X.method = "meek" THEN <<"Votes", "Surplus", "Residual">> ELSE IF X.method = "wigm" THEN <<"Non-Transferable">> ELSE <<>>)
RECURSIVE CandCols(_, _, _)
CandCols(X, a, i) ==
  IF i > Len(X.ecids) THEN <<>>
  ELSE LET c == X.ecids[i]  cs == a.cs[c] IN
       (<<X.name[c], cs.code>> \o
        (IF X.method = "meek" THEN <<cs.vote, cs.kf>> ELSE IF X.method = "wigm" THEN <<cs.vote>> ELSE <<cs.quot>>))
       \o CandCols(X, a, i + 1)
RECURSIVE HdrCols(_, _)
HdrCols(X, i) ==
  IF i > Len(X.ecids) THEN <<>>
  ELSE LET c == ToS(X.ecids[i]) IN
       (<<c \o ".name", c \o ".state">> \o
        (IF X.method = "meek" THEN <<c \o ".vote", c \o ".kf">> ELSE IF X.method = "wigm" THEN <<c \o ".vote">> ELSE <<c \o ".quotient">>))
       \o HdrCols(X, i + 1)
DumpRow(X, a) ==
  IF MessageRow(a) THEN <<ToS(a.round), a.tag, a.msg>>
  ELSE (<<IF a.tag = "end" THEN "X" ELSE ToS(a.round), a.tag, a.quota>> \o
        (IF X.method = "meek" THEN <<a.votes, a.surplus, a.residual>> ELSE IF X.method = "wigm" THEN <<a.nt>> ELSE <<>>))
       \o CandCols(X, a, 1)
DumpFails(X) ==
  (IF X.dump.hdr = DumpHeader(X) \o HdrCols(X, 1) THEN {} ELSE {<<"dump_header", 0>>}) \cup
  (IF Len(X.dump.rows) = Len(X.acts) THEN {} ELSE {<<"dump_length", Len(X.dump.rows)>>}) \cup
  {<<"dump_columns", k>> : k \in {k \in 1 .. Len(X.acts) : k <= Len(X.dump.rows) /\ ~MessageRow(X.acts[k]) /\ Len(X.dump.rows[k]) # Len(X.dump.hdr)}} \cup
  {<<"dump_row", k>> : k \in {k \in 1 .. Len(X.acts) : k <= Len(X.dump.rows) /\ X.dump.rows[k] # DumpRow(X, X.acts[k])}}

(* --- json --- *)
JsonFails(X) ==
  (IF X.json_ok THEN {} ELSE {<<"json_invalid", 0>>}) \cup
  (IF ~X.json_ok \/ Len(X.json) = Len(X.acts) THEN {} ELSE {<<"json_length", Len(X.json)>>}) \cup
  {<<"json_action", k>> : k \in {k \in 1 .. Len(X.acts) : X.json_ok /\ k <= Len(X.json) /\ X.json[k] # X.acts[k]}}

(* --- report --- *)
Shown(a) == a.tag \notin {"log", "round"}
ShownIdx(X) == SelectSeq([k \in 1 .. Len(X.acts) |-> k], LAMBDA k : Shown(X.acts[k]))
ListsCands(X, a) == IF X.method = "qpq" THEN a.tag \in {"begin", "elect", "defeat", "transfer", "end"}
                    ELSE a.tag \in {"begin", "count", "elect", "defeat", "pend", "transfer", "end"}
LabelOf(X, cs) == IF cs.state = "elected" THEN (IF cs.pend /\ X.method = "wigm" THEN "Pending" ELSE "Elected")
                  ELSE IF cs.state = "hopeful" THEN "Hopeful" ELSE "Defeated"
FigOf(X, cs) == IF X.method = "qpq" THEN cs.quot ELSE cs.vote
(* every eligible candidate appears exactly once, under the label of its recorded status, with its recorded figure *)
(* F20: a defeated candidate whose tally is zero only within the guarded tolerance is listed in the zero group, *)
(* which prints the constant zero instead of its tally                                                         *)
SliverGroup(X, cs, line) == X.method # "qpq" /\ cs.state = "defeated" /\ cs.zeq /\ ~cs.z /\ line.fig = X.zero
BlockOKx(X, a, b, sliverok) ==
  /\ b.msg = a.msg
  /\ (ListsCands(X, a) =>
        \A i \in 1 .. Len(X.ecids) :
           LET c == X.ecids[i]  cs == a.cs[c] IN
           Cardinality({j \in 1 .. Len(b.cand) : X.name[c] \in {b.cand[j].names[n] : n \in 1 .. Len(b.cand[j].names)}}) = 1
           /\ \E j \in 1 .. Len(b.cand) :
                /\ X.name[c] \in {b.cand[j].names[n] : n \in 1 .. Len(b.cand[j].names)}
                /\ b.cand[j].label = LabelOf(X, cs)
                /\ (b.cand[j].fig = FigOf(X, cs) \/ (sliverok /\ SliverGroup(X, cs, b.cand[j]))))
  /\ (b.quota # "" => b.quota = a.quota)
(* the summary lines of an action block: sums by status, non-transferable, residual, total, surplus *)
(* (judged when figures print exactly: fixed-point arithmetic shown at full precision)           *)
RECURSIVE SumBy(_, _, _)
SumBy(cs, P(_), i) == IF i = 0 THEN 0 ELSE (IF P(cs[i]) THEN cs[i].vi ELSE 0) + SumBy(cs, P, i - 1)
TotalsOK(X, a, b) ==
  IF ~X.tot \/ a.tag = "log" THEN TRUE
  ELSE IF X.method = "wigm"
  THEN LET e == SumBy(a.cs, LAMBDA c : c.state = "elected" /\ ~c.pend, Len(a.cs))
           p == SumBy(a.cs, LAMBDA c : c.state = "elected" /\ c.pend, Len(a.cs))
           h == SumBy(a.cs, LAMBDA c : c.state = "hopeful", Len(a.cs))
           d == SumBy(a.cs, LAMBDA c : c.state = "defeated", Len(a.cs))
           total == e + p + h + d + a.nti
       IN /\ b.sums.ev = e /\ b.sums.hv = h /\ b.sums.ntv = a.nti
          /\ b.sums.pv = (IF p # 0 THEN p ELSE -1) /\ b.sums.dv = (IF d # 0 THEN d ELSE -1)
          /\ b.sums.res = X.nS - total /\ b.sums.tot = X.nS /\ b.sums.sur = a.surplusi
  ELSE IF X.method = "meek"
  THEN b.sums.votes = a.votesi /\ b.sums.res = a.residuali /\ b.sums.tot = a.votesi + a.residuali /\ b.sums.sur = a.surplusi
  ELSE TRUE
BlockOK(X, a, b) == BlockOKx(X, a, b, FALSE)
ReportFails(X) ==
  LET idx == ShownIdx(X) IN
  (IF Len(X.report) = Len(idx) THEN {} ELSE {<<"report_blocks", Len(X.report)>>}) \cup
  {<<"report_block", idx[j]>> : j \in {j \in 1 .. Len(idx) : j <= Len(X.report) /\ ~BlockOKx(X, X.acts[idx[j]], X.report[j], TRUE)}} \cup
  {<<"report_totals", idx[j]>> : j \in {j \in 1 .. Len(idx) : j <= Len(X.report) /\ ~TotalsOK(X, X.acts[idx[j]], X.report[j])}} \cup
  {<<"KNOWN_F20", idx[j]>> : j \in {j \in 1 .. Len(idx) : j <= Len(X.report) /\ BlockOKx(X, X.acts[idx[j]], X.report[j], TRUE)
                                                                              /\ ~BlockOK(X, X.acts[idx[j]], X.report[j])}}

(* --- header: the JSON header is the record header; the report header shows title, seats, ballots, quota, rule and arithmetic --- *)
HeaderFails(X) ==
  (IF ~X.json_ok \/ X.jhdr = X.hdr THEN {} ELSE {<<"json_header", 0>>}) \cup
  (IF /\ X.rhdr.title = X.hdr.title /\ X.rhdr.seats = X.hdr.seats /\ X.rhdr.nballots = X.hdr.nballots /\ X.rhdr.quota = X.hdr.quota
      /\ X.rhdr.rule_info = X.rinfo.rule_info /\ X.rhdr.arithmetic_info = X.rinfo.arithmetic_info
   THEN {} ELSE {<<"report_header", 0>>})

RenderFails(X) == DumpFails(X) \cup JsonFails(X) \cup ReportFails(X) \cup HeaderFails(X)
=============================================================================
