----------------------------- MODULE ClassState -----------------------------
(***************************************************************************)
(* C20: the arithmetic classes keep their configuration in class-level,    *)
(* process-global attributes written by initialize(options).  This module  *)
(* transcribes, attribute by attribute and branch by branch, what each     *)
(* initialize() assigns (droop/values/fixed.py, guarded.py, rational.py),  *)
(* lets comparisons dirty the Guarded statistics in between, and checks    *)
(* that after ANY history the attributes a count under the new             *)
(* configuration READS are the ones a fresh process would compute.         *)
(* Powers of ten are represented by their exponents; UNSET = -1;           *)
(* DIRTY = -2 (a statistic modified by earlier comparisons).               *)
(***************************************************************************)
EXTENDS Integers, Sequences, FiniteSets, TLC, Json

CONSTANTS MAXHIST, EXPORT
UNSET == -1
DIRTY == -2
NOD == -9      \* display option not given

FixedCfgs == {[cls |-> "fixed", p |-> p, g |-> 0, d |-> d] : p \in {0, 2, 4}, d \in {NOD, 0, 1, 2, 6}}
GuardedCfgs == {[cls |-> "guarded", p |-> pg[1], g |-> pg[2], d |-> d] : pg \in {<<2, 0>>, <<2, 2>>, <<4, 1>>}, d \in {NOD, 1, 2, 3, 5, 9}}
RationalCfgs == {[cls |-> "rational", p |-> 0, g |-> 0, d |-> d] : d \in {NOD, 3}}
Configs == FixedCfgs \cup GuardedCfgs \cup RationalCfgs

FreshFixed == [name |-> "", precision |-> UNSET, display |-> UNSET, scale |-> UNSET, scaled |-> UNSET, scaledd |-> UNSET,
               epsilon |-> UNSET, dfmt |-> UNSET]
FreshGuarded == [precision |-> UNSET, guard |-> UNSET, display |-> UNSET, scalep |-> UNSET, scaleg |-> UNSET, scale |-> UNSET,
                 scaledd |-> UNSET, scaled |-> UNSET, scaledg |-> UNSET, geps10 |-> UNSET, maxDiff |-> UNSET, minDiff |-> UNSET,
                 dfmtp |-> UNSET, dfmtg |-> UNSET, exact |-> 1, quasi |-> 1, epsilon |-> UNSET]
FreshRational == [dp |-> UNSET, dps |-> UNSET]
Fresh == [fixed |-> FreshFixed, guarded |-> FreshGuarded, rational |-> FreshRational]

(* Fixed.initialize: every attribute is assigned on every path *)
InitFixed(F, c) ==
  LET d0 == IF c.d = NOD THEN c.p ELSE c.d
      d == IF d0 < 0 \/ d0 > c.p THEN c.p ELSE d0
  IN [F EXCEPT !.name = IF c.p = 0 THEN "integer" ELSE "fixed", !.precision = c.p, !.display = d, !.scale = c.p,
               !.scaled = d, !.scaledd = c.p - d, !.epsilon = 1, !.dfmt = d]
(* Guarded.initialize: __scaledg only when display > precision; epsilon only when guard = 0; statistics always reset *)
InitGuarded(G, c) ==
  LET d0 == IF c.d = NOD THEN c.p ELSE c.d
      d == IF d0 > c.p + c.g THEN c.p + c.g ELSE d0
      G1 == [G EXCEPT !.precision = c.p, !.guard = c.g, !.display = d, !.scalep = c.p, !.scaleg = c.g, !.scale = c.p + c.g,
                      !.scaledd = c.g + c.p - d, !.scaled = d, !.geps10 = c.g, !.maxDiff = 0, !.minDiff = c.p + c.g + 2,
                      !.dfmtp = IF d <= c.p THEN d ELSE c.p, !.dfmtg = IF d <= c.p THEN 0 ELSE d - c.p]
      G2 == IF d > c.p THEN [G1 EXCEPT !.scaledg = d - c.p] ELSE G1
  IN IF c.g = 0 THEN [G2 EXCEPT !.quasi = 0, !.exact = 0, !.epsilon = 1] ELSE [G2 EXCEPT !.quasi = 1, !.exact = 1]
InitRational(R, c) == LET d == IF c.d = NOD THEN 12 ELSE c.d IN [R EXCEPT !.dp = d, !.dps = d]

Initialize(S, c) ==
  CASE c.cls = "fixed" -> [S EXCEPT !.fixed = InitFixed(S.fixed, c)]
    [] c.cls = "guarded" -> [S EXCEPT !.guarded = InitGuarded(S.guarded, c)]
    [] c.cls = "rational" -> [S EXCEPT !.rational = InitRational(S.rational, c)]

(* what a count and its renderings read under configuration c *)
ReadSet(c) ==
  CASE c.cls = "fixed" -> DOMAIN FreshFixed
    [] c.cls = "rational" -> DOMAIN FreshRational
    [] c.cls = "guarded" ->
         LET d0 == IF c.d = NOD THEN c.p ELSE c.d
             d == IF d0 > c.p + c.g THEN c.p + c.g ELSE d0
         IN (DOMAIN FreshGuarded \ {"scaledg", "epsilon"}) \cup (IF d > c.p THEN {"scaledg"} ELSE {}) \cup (IF c.g = 0 THEN {"epsilon"} ELSE {})

VARIABLES S, hist, last
vars == <<S, hist, last>>
Init == S = Fresh /\ hist = <<>> /\ last = [cls |-> "none"]
(* an election is constructed (initialize) ... *)
Construct == Len(hist) < MAXHIST /\ \E c \in Configs : S' = Initialize(S, c) /\ hist' = Append(hist, c) /\ last' = c
(* ... and counted: comparisons of guarded values update the statistics *)
Count == last.cls = "guarded" /\ S.guarded.maxDiff # DIRTY
         /\ S' = [S EXCEPT !.guarded.maxDiff = DIRTY, !.guarded.minDiff = DIRTY] /\ UNCHANGED <<hist, last>>
Next == Construct \/ Count
Spec == Init /\ [][Next]_vars

(* right after construction, everything the new election will read is what a fresh process would hold *)
JustConstructed == last.cls # "none" /\ (last.cls = "guarded" => S.guarded.maxDiff # DIRTY)
HistoryFree == JustConstructed =>
                 \A a \in ReadSet(last) : S[last.cls][a] = Initialize(Fresh, last)[last.cls][a]

Hash == Len(hist) * 5 + (IF Len(hist) > 0 THEN hist[1].p * 3 + hist[1].g + hist[1].d ELSE 0) + last.p * 7 + last.d + last.g * 11
Exported == IF EXPORT > 0 /\ JustConstructed /\ Hash % EXPORT = 0
            THEN PrintT("CLSCASE " \o ToJson([hist |-> hist, state |-> S])) ELSE TRUE
=============================================================================
