--------------------------- MODULE TraceInterrupt ---------------------------
(* Code -> spec: crash-point records (one per injected KeyboardInterrupt) judged by C19's clauses. *)
(* X = [id, rule, k, nfull, nacts, filled, report_ok, dump_ok, json_ok, marker_last, marker_count, *)
(*      banner, prefix_ok, json_prefix_ok, dump_rows, json_actions]                                 *)
EXTENDS Integers, Sequences, FiniteSets, TLC, Json, IOUtils, TLCExt
CONSTANTS NW
Recs == ndJsonDeserialize(IOEnv.TRACE_FILE)
VARIABLE i
Init == i \in 1 .. NW
Next == i + NW <= Len(Recs) /\ i' = i + NW
Fails(X) ==
  (* the user's interrupt ends the count: it is not swallowed somewhere inside the package *)
  (IF X.lost THEN {"interrupt_lost"} ELSE {}) \cup
  (IF X.report_ok THEN {} ELSE {"report_fails"}) \cup
  (IF X.dump_ok THEN {} ELSE {"dump_fails"}) \cup
  (IF X.json_ok THEN {} ELSE {"json_fails"}) \cup
  (IF X.marker_last /\ X.marker_count = 1 THEN {} ELSE {"marker"}) \cup
  (IF ~X.report_ok \/ X.banner THEN {} ELSE {"report_not_marked"}) \cup
  (IF X.prefix_ok /\ X.nacts <= X.nfull THEN {} ELSE {"not_a_prefix"}) \cup
  (IF ~X.json_ok \/ (X.json_prefix_ok /\ X.json_actions = X.nacts + 1) THEN {} ELSE {"json_not_a_prefix"}) \cup
  (IF ~X.dump_ok \/ X.dump_rows = X.nacts + 2 THEN {} ELSE {"dump_rows"})
Judged == IF i <= Len(Recs)
          THEN (IF Fails(Recs[i]) = {} THEN TRUE ELSE PrintT(ToString(<<"INTR", Recs[i].id, Fails(Recs[i])>>)))
               /\ (IF i + NW > Len(Recs) THEN PrintT(ToString(<<"INTRDONE", i>>)) ELSE TRUE)
          ELSE TRUE
=============================================================================
