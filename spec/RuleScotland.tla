---------------------------- MODULE RuleScotland ----------------------------
(***************************************************************************)
(* scotland: droop/rules/scotland.py.  Clause ids: The Scottish Local      *)
(* Government Elections Order 2007 (SSI 2007/42), Schedule 1, rules 45-52. *)
(***************************************************************************)
EXTENDS Election

SC_Quota(h) == VInt(h, (h.n \div (h.seats + 1)) + 1)                       \* r.46
SC_ElectList(s) == SelectSeq(ByVoteDesc(s.vote, HopefulS(s)), LAMBDA c : s.vote[c] >= s.quota)   \* r.47
SC_Complete(s) == SeatsLeft(s) <= 0 \/ Cardinality(HopefulS(s)) <= SeatsLeft(s)

(* r.49(2)(b), r.51(2): most recent preceding stage at which the tied candidates had unequal votes; *)
(* IMPL: the code asks for a stage with a UNIQUE extreme among all tied, searching further back     *)
(* when the extreme is shared (for two tied candidates the two readings coincide).                  *)
RECURSIVE SC_Prior(_, _, _, _)
SC_Prior(s, tied, kind, n) ==
  IF n = 0 THEN 0
  ELSE LET v == s.rounds[n]
           ext == IF kind = "defeat" THEN {x \in tied : \A y \in tied : v[x] <= v[y]}
                  ELSE {x \in tied : \A y \in tied : v[x] >= v[y]}
       IN IF Cardinality(ext) = 1 THEN CHOOSE x \in ext : TRUE ELSE SC_Prior(s, tied, kind, n - 1)
SC_Tie(s, tied, kind) ==
  LET pr == SC_Prior(s, tied, kind, Len(s.rounds)) IN
  IF pr # 0 THEN [LogTie(s, "tie_prior", kind, tied, pr) EXCEPT !.cur = pr, !.flag = TRUE]
  ELSE LET c == FirstInTieOrder(s, tied) IN                                \* "by lot" = declared tie order
       [LogTie(s, "tie_lot", kind, tied, c) EXCEPT !.cur = c, !.flag = TRUE]

(* r.52 and the reporting-only epilogue *)
SC_Finish(s) == [s EXCEPT !.pend = [c \in CandS(s) |-> FALSE], !.pc = "finish", !.flag = FALSE,
                          !.istat = IF Cardinality(HopefulS(s)) <= SeatsLeft(s) THEN "elect" ELSE "defeat"]
SC_FinishStep(s) ==
  IF HopefulS(s) # {}
  THEN LET c == SetOrder(HopefulS(s))[1] IN
       IF s.istat = "elect" THEN Elect(s, c, "elect_remaining", FALSE) ELSE Defeat(s, c, "defeat_remaining")
  ELSE [Log(s, "end", "end", 0) EXCEPT !.pc = "done"]

SC_Choose(s) ==
  IF PendingS(s) # {}
  THEN LET high == PyMaxOver(s, s.vote, PendingS(s))                       \* r.49(1) largest surplus first
           tied == {c \in PendingS(s) : s.vote[c] = high}
       IN IF Cardinality(tied) > 1 /\ ~s.flag THEN [SC_Tie(s, tied, "surplus") EXCEPT !.pc = "choose"]
          ELSE LET hc == IF Cardinality(tied) > 1 THEN s.cur ELSE CHOOSE c \in tied : TRUE IN
               [Log([s EXCEPT !.pend[hc] = FALSE], "unpend", "unpend", hc) EXCEPT !.pc = "surplus", !.cur = hc, !.flag = FALSE]
  ELSE IF HopefulS(s) # {}
  THEN LET low == PyMinOver(s, s.vote, HopefulS(s))                        \* r.50(1)
           tied == {c \in HopefulS(s) : s.vote[c] = low}
       IN IF Cardinality(tied) > 1 /\ ~s.flag THEN [SC_Tie(s, tied, "defeat") EXCEPT !.pc = "choose"]
          ELSE LET lc == IF Cardinality(tied) > 1 THEN s.cur ELSE CHOOSE c \in tied : TRUE IN
               [Defeat(s, lc, "defeat_low") EXCEPT !.pc = "exclude", !.cur = lc, !.flag = FALSE]
  ELSE SC_FinishStep(SC_Finish(s))

SC_ElectStep(s) ==
  LET L == SC_ElectList(s) IN
  IF L # <<>> THEN [Elect(s, L[1], "elect_pending", TRUE) EXCEPT !.pc = "elect"]
  ELSE IF SC_Complete(s) THEN SC_FinishStep(SC_Finish(s))
  ELSE LET s1 == [s EXCEPT !.round = s.round + 1, !.rounds = Append(s.rounds, s.vote)]
           sur == Sum([c \in CandS(s) |-> IF c \in PendingS(s) /\ s.vote[c] > s.quota THEN s.vote[c] - s.quota ELSE 0])
       IN [Log(s1, "round", "round", 0) EXCEPT !.pc = "choose", !.surplus = sur]   \* IMPL: surplus is reporting-only

Step_scotland(s) ==
  CASE s.pc = "start" ->
         LET s1 == [s EXCEPT !.quota = SC_Quota(s.h), !.vote = FirstPrefs(s)] IN       \* r.45, r.46
         [Log(s1, "begin", "begin", 0) EXCEPT !.pc = "elect"]
    [] s.pc = "elect" -> SC_ElectStep(s)                                              \* r.47
    [] s.pc = "choose" -> SC_Choose(s)
    [] s.pc = "surplus" ->                                                            \* r.48(3): fused multiply-divide, truncated to 5 places
         LET c == s.cur
             sur == s.vote[c] - s.quota
             J == {j \in 1 .. NLines(s) : TopOf(s, j) = c}
             w2 == [j \in 1 .. NLines(s) |-> IF j \in J THEN VMulDiv(s.h, s.bal[j].w, sur, s.vote[c]) ELSE s.bal[j].w]
             s1 == MoveBallots(s, J, w2, HopefulS(s))
             s2 == [s1 EXCEPT !.vote[c] = s.quota]
         IN [LogTransfer(s2, "transfer_surplus", <<c>>) EXCEPT !.pc = "elect"]
    [] s.pc = "exclude" ->                                                            \* r.50(3),(4)
         IF Cardinality(HopefulS(s)) <= SeatsLeft(s) /\ "DEV_SC_52_2" \notin s.h.devs
         THEN SC_FinishStep(SC_Finish(s))                                             \* TEXT r.52(2): no further transfer
         ELSE LET c == s.cur
                  s0 == IF Cardinality(HopefulS(s)) <= SeatsLeft(s) THEN [s EXCEPT !.devs = @ \cup {"DEV_SC_52_2"}] ELSE s
                  J == {j \in 1 .. NLines(s) : TopOf(s, j) = c}
                  s1 == MoveBallots(s0, J, [j \in 1 .. NLines(s) |-> s.bal[j].w], HopefulS(s))
                  s2 == [s1 EXCEPT !.vote[c] = 0]
              IN [LogTransfer(s2, "transfer_defeated", <<c>>) EXCEPT !.pc = "postexcl"]
    [] s.pc = "postexcl" -> IF SC_Complete(s) THEN SC_FinishStep(SC_Finish(s)) ELSE SC_ElectStep(s)
    [] s.pc = "finish" -> SC_FinishStep(s)
=============================================================================
