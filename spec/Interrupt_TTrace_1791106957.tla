---- MODULE Interrupt_TTrace_1791106957 ----
EXTENDS Sequences, TLCExt, Toolbox, Naturals, TLC, Interrupt

_expression ==
    LET Interrupt_TEExpression == INSTANCE Interrupt_TEExpression
    IN Interrupt_TEExpression!expression
----

_trace ==
    LET Interrupt_TETrace == INSTANCE Interrupt_TETrace
    IN Interrupt_TETrace!trace
----

_inv ==
    ~(
        TLCGet("level") = Len(_TETrace)
        /\
        intr = (TRUE)
        /\
        rendered = ({<<"report", FALSE>>})
        /\
        keys = ({})
        /\
        marker = (1)
        /\
        filled = (FALSE)
        /\
        acts = (<<"marker">>)
        /\
        fillpc = (0)
    )
----

_init ==
    /\ acts = _TETrace[1].acts
    /\ intr = _TETrace[1].intr
    /\ fillpc = _TETrace[1].fillpc
    /\ rendered = _TETrace[1].rendered
    /\ filled = _TETrace[1].filled
    /\ keys = _TETrace[1].keys
    /\ marker = _TETrace[1].marker
----

_next ==
    /\ \E i,j \in DOMAIN _TETrace:
        /\ \/ /\ j = i + 1
              /\ i = TLCGet("level")
        /\ acts  = _TETrace[i].acts
        /\ acts' = _TETrace[j].acts
        /\ intr  = _TETrace[i].intr
        /\ intr' = _TETrace[j].intr
        /\ fillpc  = _TETrace[i].fillpc
        /\ fillpc' = _TETrace[j].fillpc
        /\ rendered  = _TETrace[i].rendered
        /\ rendered' = _TETrace[j].rendered
        /\ filled  = _TETrace[i].filled
        /\ filled' = _TETrace[j].filled
        /\ keys  = _TETrace[i].keys
        /\ keys' = _TETrace[j].keys
        /\ marker  = _TETrace[i].marker
        /\ marker' = _TETrace[j].marker

\* Uncomment the ASSUME below to write the states of the error trace
\* to the given file in Json format. Note that you can pass any tuple
\* to `JsonSerialize`. For example, a sub-sequence of _TETrace.
    \* ASSUME
    \*     LET J == INSTANCE Json
    \*         IN J!JsonSerialize("Interrupt_TTrace_1791106957.json", _TETrace)

=============================================================================

 Note that you can extract this module `Interrupt_TEExpression`
  to a dedicated file to reuse `expression` (the module in the 
  dedicated `Interrupt_TEExpression.tla` file takes precedence 
  over the module `Interrupt_TEExpression` below).

---- MODULE Interrupt_TEExpression ----
EXTENDS Sequences, TLCExt, Toolbox, Naturals, TLC, Interrupt

expression == 
    [
        \* To hide variables of the `Interrupt` spec from the error trace,
        \* remove the variables below.  The trace will be written in the order
        \* of the fields of this record.
        acts |-> acts
        ,intr |-> intr
        ,fillpc |-> fillpc
        ,rendered |-> rendered
        ,filled |-> filled
        ,keys |-> keys
        ,marker |-> marker
        
        \* Put additional constant-, state-, and action-level expressions here:
        \* ,_stateNumber |-> _TEPosition
        \* ,_actsUnchanged |-> acts = acts'
        
        \* Format the `acts` variable as Json value.
        \* ,_actsJson |->
        \*     LET J == INSTANCE Json
        \*     IN J!ToJson(acts)
        
        \* Lastly, you may build expressions over arbitrary sets of states by
        \* leveraging the _TETrace operator.  For example, this is how to
        \* count the number of times a spec variable changed up to the current
        \* state in the trace.
        \* ,_actsModCount |->
        \*     LET F[s \in DOMAIN _TETrace] ==
        \*         IF s = 1 THEN 0
        \*         ELSE IF _TETrace[s].acts # _TETrace[s-1].acts
        \*             THEN 1 + F[s-1] ELSE F[s-1]
        \*     IN F[_TEPosition - 1]
    ]

=============================================================================



Parsing and semantic processing can take forever if the trace below is long.
 In this case, it is advised to uncomment the module below to deserialize the
 trace from a generated binary file.

\*
\*---- MODULE Interrupt_TETrace ----
\*EXTENDS IOUtils, TLC, Interrupt
\*
\*trace == IODeserialize("Interrupt_TTrace_1791106957.bin", TRUE)
\*
\*=============================================================================
\*

---- MODULE Interrupt_TETrace ----
EXTENDS TLC, Interrupt

trace == 
    <<
    ([intr |-> FALSE,rendered |-> {},keys |-> {},marker |-> 0,filled |-> FALSE,acts |-> <<>>,fillpc |-> 0]),
    ([intr |-> TRUE,rendered |-> {},keys |-> {},marker |-> 0,filled |-> FALSE,acts |-> <<>>,fillpc |-> 0]),
    ([intr |-> TRUE,rendered |-> {<<"report", FALSE>>},keys |-> {},marker |-> 1,filled |-> FALSE,acts |-> <<"marker">>,fillpc |-> 0])
    >>
----


=============================================================================

---- CONFIG Interrupt_TTrace_1791106957 ----
CONSTANTS
    MAXACTS = 4
    FILL_ON_DEMAND = FALSE

INVARIANT
    _inv

CHECK_DEADLOCK
    \* CHECK_DEADLOCK off because of PROPERTY or INVARIANT above.
    FALSE

INIT
    _init

NEXT
    _next

CONSTANT
    _TETrace <- _trace

ALIAS
    _expression
=============================================================================
\* Generated on Sun Oct 04 09:42:37 UTC 2026