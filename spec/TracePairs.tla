----------------------------- MODULE TracePairs -----------------------------
(* Code -> spec: pairs of recorded traces judged by the relations of Pairs.tla. *)
EXTENDS Pairs, Json, IOUtils, TLCExt
CONSTANTS NW
PairsIn == ndJsonDeserialize(IOEnv.TRACE_FILE)
VARIABLE i
Init == i \in 1 .. NW
Next == i + NW <= Len(PairsIn) /\ i' = i + NW
Judged == IF i <= Len(PairsIn)
          THEN PrintT(ToString(<<"PAIR", PairsIn[i].id, Vacuous(PairsIn[i]), PairFails(PairsIn[i])>>))
          ELSE TRUE
=============================================================================
