------------------------------- MODULE MCBlt --------------------------------
(***************************************************************************)
(* C16 at design level: the reader specification (Blt.tla) is total and    *)
(* accepts only valid profiles, over EVERY text obtained from a few base   *)
(* files by substituting, inserting or deleting up to two words drawn from *)
(* an alphabet of edge-case words (both with every word on its own line    *)
(* and with all words on one line, which is what `#' comments care about). *)
(* Alphabet and bases come from the harness (word features, DESIGN 9).     *)
(***************************************************************************)
EXTENDS Blt, Json, IOUtils
CONSTANT MAXY      \* the second edit draws from the first MAXY alphabet words (bounds the quick tier)
Data == JsonDeserialize(IOEnv.ALPHA_FILE)
Alpha == Data.alpha
Bases == Data.bases
NA == Len(Alpha)

VARIABLE t     \* [base, kind, i, j, x, y, oneline]
Init == \E bi \in 1 .. Len(Bases), kind \in {"sub", "ins", "del"}, one \in BOOLEAN :
          LET n == Len(Bases[bi]) IN
          \E i \in 1 .. n + 1, j \in 1 .. n + 1, x \in 1 .. NA, y \in 0 .. (IF MAXY < NA THEN MAXY ELSE NA) :
             /\ i <= j
             /\ (kind # "ins" => i <= n /\ j <= n)
             /\ (kind = "del" => x = 1 /\ y \in {0, 1})
             /\ t = [base |-> bi, kind |-> kind, i |-> i, j |-> j, x |-> x, y |-> y, oneline |-> one]
Next == UNCHANGED t

(* the edited index sequence: y = 0 means a single edit at i *)
Edited ==
  LET B == Bases[t.base]  n == Len(B) IN
  CASE t.kind = "sub" -> [k \in 1 .. n |-> IF k = t.i THEN t.x ELSE IF t.y # 0 /\ k = t.j THEN t.y ELSE B[k]]
    [] t.kind = "del" -> SelectSeq([k \in 1 .. n |-> IF k = t.i \/ (t.y # 0 /\ k = t.j) THEN 0 ELSE B[k]], LAMBDA v : v # 0)
    [] t.kind = "ins" -> SubSeq(B, 1, t.i - 1) \o <<t.x>> \o SubSeq(B, t.i, t.j - 1) \o (IF t.y # 0 THEN <<t.y>> ELSE <<>>) \o SubSeq(B, t.j, n)
Words == LET E == Edited IN [k \in 1 .. Len(E) |-> [Alpha[E[k]] EXCEPT !.line = IF t.oneline THEN 1 ELSE k]]

Result == Parse(Words)
(* never anything but a profile or the package's own error (with every listed defect repaired: FIXED) *)
Total == Result.out \in {"ok", "err"}
(* whatever is accepted satisfies the invariants of a valid election *)
AcceptedValid == Result.out = "ok" => ValidProfile(Result.prof)
Accepted == Result.out # "ok"      \* reachability probe: violated iff some edited text is accepted (used to measure coverage)
=============================================================================
