--------------------------- MODULE TraceBigProps ----------------------------
EXTENDS BigProps, Json, IOUtils, TLCExt
CONSTANTS PropSet, NW
Traces == ndJsonDeserialize(IOEnv.TRACE_FILE)
VARIABLE i
Init == i \in 1 .. NW
Next == i + NW <= Len(Traces) /\ i' = i + NW
Verdict(t) == UNION {BigFailOf(p, Traces[t]) : p \in PropSet}
Judged == IF i <= Len(Traces) THEN PrintT(ToString(<<"VERDICT", Traces[i].id, Verdict(i)>>)) ELSE TRUE
=============================================================================
