------------------------------ MODULE BigProps ------------------------------
(***************************************************************************)
(* The conservation, quota and Meek-invariant clauses of C02 / C04 / C08   *)
(* on traces whose numbers do not fit 32 bits: the shipping precisions     *)
(* (default guarded 18+9, meek-prf at 9 places, qpq at 9+9).  Numbers are   *)
(* limb-encoded (BigNum.tla); only sums, comparisons and products with     *)
(* small integers are needed, all relational.  Same trace record as        *)
(* Props.tla, except that every number is [neg, mag] and `Sb', `nSb',      *)
(* `gepsb', `omegab' carry the scale, n*S, the tolerance and omega.        *)
(***************************************************************************)
EXTENDS BigNum, FiniteSets

NA(T) == Len(T.acts)
Cand(T) == 1 .. T.nc
RECURSIVE BSumTo(_, _)
BSumTo(f, n) == IF n = 0 THEN BZero ELSE BAdd(f[n], BSumTo(f, n - 1))
BSum(f) == BSumTo(f, Len(f))
BLTt(T, x, y) == BLe(T.gepsb, BSub(y, x))                 \* the arithmetic's own `<'
BEQt(T, x, y) == BLt(BAbs(BSub(x, y)), T.gepsb)
Neg(x) == x.neg /\ x.mag # <<>>
Small(T, k) == BSmall(k)

TotalAt(T, a) == BAdd(BSum(a.vote), IF T.fam = "greg" THEN a.nt ELSE IF T.fam = "meek" THEN a.residual ELSE BZero)
NSurplus(T, k) == Cardinality({i \in 1 .. k : T.acts[i].mc = "transfer_surplus"})
MeekPost(T, a) ==
  IF T.rule = "meek-prf"
  THEN a.tag \in {"begin", "tie", "end"} \/ a.mc = "elect" \/ a.mc \in {"defeat_omega", "defeat_stable"}
  ELSE a.tag \in {"iterate", "end"}

B02_nonneg(T) == {k \in 1 .. NA(T) : LET a == T.acts[k] IN (\E c \in Cand(T) : Neg(a.vote[c])) \/ Neg(a.nt) \/ Neg(a.residual)}
B02_upper(T) == IF T.fam = "qpq" THEN {} ELSE {k \in 1 .. NA(T) : BLt(T.nSb, TotalAt(T, T.acts[k]))}
B02_lower(T) == IF T.fam # "greg" \/ Len(T.eq) > 0 THEN {} ELSE
  {k \in 1 .. NA(T) : BLt(TotalAt(T, T.acts[k]), BSub(T.nSb, BMul(BSmall(2 * NSurplus(T, k)), T.nb)))}
B02_meek(T) == IF T.fam # "meek" \/ Len(T.eq) > 0 THEN {} ELSE
  {k \in 1 .. NA(T) : LET a == T.acts[k] IN
     ~BEq(TotalAt(T, a), T.nSb) /\ (IF T.rule = "meek-prf" THEN MeekPost(T, a) ELSE TRUE)}
(* quota: q - eps = floor(x / (s+1)), stated relationally; x = n*S (greg, begin) or the votes still credited (Meek points) *)
QuotaOK(T, q, x) ==
  IF T.rule \in {"scotland", "mpls"} \/ T.intq
  THEN (* q = (floor(n/(s+1)) + 1) * S, stated relationally: (q - S)(s+1) <= n*S < q(s+1) *)
       BLe(BMul(BSub(q, T.Sb), BSmall(T.seats + 1)), T.nSb) /\ BLt(T.nSb, BMul(q, BSmall(T.seats + 1)))
  ELSE BIsFloorDiv(BSub(q, IF T.exactq THEN BZero ELSE BSmall(1)), x, BSmall(T.seats + 1))
B04_quota(T) ==
  {k \in 1 .. NA(T) : LET a == T.acts[k] IN
     CASE T.fam = "greg" -> ~QuotaOK(T, a.quota, T.nSb)
       [] T.fam = "meek" -> \/ (a.tag = "begin" /\ ~QuotaOK(T, a.quota, T.nSb))
                            \/ ((a.tag \in {"iterate", "tie"} \/ a.mc \in {"elect", "defeat_omega", "defeat_stable"}) /\ ~QuotaOK(T, a.quota, a.votes))
       [] OTHER -> FALSE}
(* F24 at the shipping precisions (no iteration snapshots here): an elected candidate's keep factor and tally are 0 under guarded *)
(* arithmetic with guard digits once the quota has collapsed below one vote (every ballot exhausted)                            *)
F24Big(T, a, c) == T.exactq /\ a.st[c] = "E" /\ BIsZero(a.kf[c]) /\ BIsZero(a.vote[c]) /\ BLt(a.quota, T.Sb)
KfBadBig(T, a, c) ==
  ~T.wd[c] /\ LET st == IF a.tag = "defeat" /\ c = a.subj THEN "H" ELSE a.st[c] IN
              \/ (st = "H" /\ ~BEq(a.kf[c], T.Sb))
              \/ (st = "D" /\ ~BIsZero(a.kf[c]))
              \/ (st = "E" /\ ~(BLt(BZero, a.kf[c]) /\ BLe(a.kf[c], T.Sb)))
B08_kf(T) == IF T.fam # "meek" THEN {} ELSE
  {k \in 1 .. NA(T) : LET a == T.acts[k] IN MeekPost(T, a) /\ \E c \in Cand(T) : KfBadBig(T, a, c) /\ ~F24Big(T, a, c)}
B08_kf_f24(T) == IF T.fam # "meek" THEN {} ELSE
  {k \in 1 .. NA(T) : LET a == T.acts[k] IN MeekPost(T, a) /\ \E c \in Cand(T) : KfBadBig(T, a, c) /\ F24Big(T, a, c)} \ B08_kf(T)
B08_omega(T) == IF T.fam # "meek" THEN {} ELSE
  {k \in 1 .. NA(T) : LET a == T.acts[k] IN
     \/ (a.mc = "iterate_omega" /\ BLTt(T, T.omegab, a.surplus))
     \/ (a.mc = "defeat_omega" /\ T.rule = "meek-prf" /\ ~BLTt(T, a.surplus, T.omegab))}
(* QPQ: the fractional numbers of candidates elected by all ballots sum to the number elected (guarded equality) *)
QpqWeight(T, a) == BSum([j \in DOMAIN a.bal |-> BMul(a.bal[j].w, BSmall(T.lines[j].m))])
B02_qpq(T) == IF T.fam # "qpq" THEN {} ELSE
  {k \in 1 .. NA(T) : LET a == T.acts[k] IN
     /\ a.tag \in {"begin", "round", "transfer"}
     /\ \A i \in 1 .. k : T.acts[i].mc \notin {"defeat_remaining", "elect_remaining"}
     /\ ~BEQt(T, QpqWeight(T, a), BMul(BSmall(Cardinality({c \in Cand(T) : a.st[c] = "E"})), T.Sb))}

Tag(p, cl, S) == {<<p, cl, k>> : k \in S}
BigFailOf(p, T) ==
  IF T.outcome \notin {"ok", "exc"} \/ NA(T) = 0 THEN {} ELSE
  CASE p = "C02" -> Tag("C02", "big_nonneg", B02_nonneg(T)) \cup Tag("C02", "big_upper", B02_upper(T)) \cup
                    Tag("C02", "big_lower", B02_lower(T)) \cup Tag("C02", "big_meek", B02_meek(T)) \cup Tag("C02", "big_qpq", B02_qpq(T))
    [] p = "C04" -> Tag("C04", "big_quota", B04_quota(T))
    [] p = "C08" -> Tag("C08", "big_kf", B08_kf(T)) \cup Tag("C08", "KNOWN_F24", B08_kf_f24(T)) \cup Tag("C08", "big_omega", B08_omega(T)) \cup Tag("C08", "big_sum", B02_meek(T))
    [] OTHER -> {}
=============================================================================
