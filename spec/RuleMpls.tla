------------------------------ MODULE RuleMpls ------------------------------
(***************************************************************************)
(* mpls: droop/rules/mpls.py.  Clause ids: Minneapolis Code of Ordinances  *)
(* Title 8.5, 167.20 (definitions) and 167.70(c) (multiple-seat elections). *)
(***************************************************************************)
EXTENDS Election

MP_Quota(h) == VInt(h, (h.n \div (h.seats + 1)) + 1)                       \* 167.20 Threshold
MP_Surplus(s, S) == Sum([c \in CandS(s) |-> IF c \in S /\ s.vote[c] > s.quota THEN s.vote[c] - s.quota ELSE 0])
Declared(s) == {c \in CandS(s) : ~s.h.und[c]}
MP_HWQ(s, pool) == SelectSeq(ByVoteDesc(s.vote, pool), LAMBDA c : s.vote[c] >= s.quota)

(* 167.20 "mathematically impossible to be elected": mpls.findCertainLosers *)
RECURSIVE MP_Scan(_, _, _, _, _, _, _)
MP_Scan(s, q, cx, vote, losers, maxDefeat, sur) ==
  IF cx > Len(q) - 1 THEN losers
  ELSE IF cx > maxDefeat THEN losers
  ELSE LET v2 == vote + s.vote[q[cx]] IN
       MP_Scan(s, q, cx + 1, v2, IF v2 + sur < s.vote[q[cx + 1]] THEN cx ELSE losers, maxDefeat, sur)
MP_CertainLosers(s, sur) ==
  LET q == ByVoteAsc(s.vote, HopefulS(s))
      k == MP_Scan(s, q, 1, 0, 0, Cardinality(HopefulS(s)) - SeatsLeft(s), sur)
  IN SetOrder({q[i] : i \in 1 .. k})                                       \* C.byBallotOrder(losers)

MP_Finish(s) == [s EXCEPT !.pc = "finish", !.flag = FALSE,
                          !.istat = IF Cardinality(HopefulS(s)) <= SeatsLeft(s) THEN "elect" ELSE "defeat"]
MP_FinishStep(s) ==
  IF HopefulS(s) # {}
  THEN LET c == SetOrder(HopefulS(s))[1] IN
       IF s.istat = "elect" THEN Elect(s, c, "elect_remaining", FALSE) ELSE Defeat(s, c, "defeat_remaining")
  ELSE [Log(s, "end", "end", 0) EXCEPT !.pc = "done"]

MP_Choose(s) ==
  LET hwq == {c \in HopefulS(s) : s.vote[c] >= s.quota} IN
  IF hwq # {}
  THEN LET high == PyMaxOver(s, s.vote, hwq)                               \* 167.70(c)(1)d largest surplus
           tied == {c \in hwq : s.vote[c] = high}
           hc == FirstInTieOrder(s, tied)                                  \* (c)(1)f "by lot"
       IN IF Cardinality(tied) > 1 /\ ~s.flag
          THEN [LogTie(s, "tie", "surplus", tied, hc) EXCEPT !.pc = "choose", !.flag = TRUE]
          ELSE [Elect(s, hc, "elect", FALSE) EXCEPT !.pc = "surplus", !.cur = hc, !.flag = FALSE]
  ELSE IF Cardinality(HopefulS(s)) > SeatsLeft(s)
  THEN LET low == PyMinOver(s, s.vote, HopefulS(s))                        \* 167.70(c)(1)e
           tied == {c \in HopefulS(s) : s.vote[c] = low}
           lc == FirstInTieOrder(s, tied)
       IN IF Cardinality(tied) > 1 /\ ~s.flag
          THEN [LogTie(s, "tie", "defeat", tied, lc) EXCEPT !.pc = "choose", !.flag = TRUE]
          ELSE [Defeat(s, lc, "defeat_low") EXCEPT !.pc = "exclude", !.cur = lc, !.flag = FALSE]
  ELSE MP_FinishStep(MP_Finish(s))

MP_Defeats(s) ==
  LET undH == IF s.round = 2 THEN SetOrder({c \in HopefulS(s) : s.h.und[c]}) ELSE <<>>      \* 167.70(c)(1)b... undeclared write-ins
      undV == IF s.round = 2
              THEN Sum([j \in 1 .. NLines(s) |-> IF TopOf(s, j) # 0 /\ s.h.und[TopOf(s, j)] THEN s.bal[j].w * s.h.lines[j].m ELSE 0])
              ELSE 0
      cl == MP_CertainLosers(s, s.surplus + undV)
      D == undH \o SelectSeq(cl, LAMBDA c : c \notin SeqToSet(undH))
  IN IF D # <<>>
     THEN [Defeat(s, D[1], IF s.h.und[D[1]] THEN "defeat_undeclared" ELSE "defeat_certain")
             EXCEPT !.pc = "batchdefeat", !.q = Tail(D), !.q2 = D]
     ELSE MP_Choose(s)

Step_mpls(s) ==
  CASE s.pc = "start" ->
         LET s1 == [s EXCEPT !.quota = MP_Quota(s.h), !.vote = FirstPrefs(s)] IN
         [NewRound(s1) EXCEPT !.pc = "count"]                                          \* IMPL: no `begin' action
    [] s.pc = "count" ->                                                               \* 167.70(c)(1)a
         [Log([s EXCEPT !.surplus = MP_Surplus(s, Declared(s))], "count", "count", 0) EXCEPT !.pc = "threshold"]
    [] s.pc = "threshold" ->
         LET hwq == MP_HWQ(s, HopefulS(s) \cap Declared(s)) IN
         IF Cardinality(ElectedS(s)) + Len(hwq) >= s.h.seats
         THEN (IF hwq # <<>> THEN Elect(s, hwq[1], "elect_threshold", FALSE) ELSE MP_FinishStep(MP_Finish(s)))
         ELSE [NewRound(s) EXCEPT !.pc = "defeats"]
    [] s.pc = "defeats" -> MP_Defeats(s)                                               \* 167.70(c)(1)b,c
    [] s.pc = "batchdefeat" ->
         IF s.q # <<>> THEN [Defeat(s, s.q[1], IF s.h.und[s.q[1]] THEN "defeat_undeclared" ELSE "defeat_certain") EXCEPT !.q = Tail(s.q)]
         ELSE IF Cardinality(HopefulS(s)) <= SeatsLeft(s) /\ "DEV_MPLS_C" \notin s.h.devs
         THEN MP_FinishStep(MP_Finish(s))                                              \* TEXT (c)(1)c: not transferred in the final round
         ELSE LET s0 == IF Cardinality(HopefulS(s)) <= SeatsLeft(s) THEN [s EXCEPT !.devs = @ \cup {"DEV_MPLS_C"}] ELSE s
                  D == SeqToSet(s.q2)
                  J == {j \in 1 .. NLines(s) : TopOf(s, j) \in D}
                  s1 == MoveBallots(s0, J, [j \in 1 .. NLines(s) |-> s.bal[j].w], HopefulS(s))
                  s2 == [s1 EXCEPT !.vote = [c \in CandS(s) |-> IF c \in D THEN 0 ELSE s1.vote[c]]]
                  s3 == [s2 EXCEPT !.surplus = MP_Surplus(s2, CandS(s))]
              IN [LogTransfer(s3, "transfer_defeated", s.q2) EXCEPT !.pc = "count", !.q2 = <<>>]
    [] s.pc = "choose" -> MP_Choose(s)
    [] s.pc = "surplus" ->                                                             \* 167.70(c)(1)d, 167.20 transfer value (4 places, truncated twice)
         LET c == s.cur
             sur == s.vote[c] - s.quota
             J == {j \in 1 .. NLines(s) : TopOf(s, j) = c}
             w2 == [j \in 1 .. NLines(s) |-> IF j \in J THEN VDiv(s.h, VMul(s.h, s.bal[j].w, sur), s.vote[c]) ELSE s.bal[j].w]
             s1 == MoveBallots(s, J, w2, HopefulS(s))
             s2 == [s1 EXCEPT !.vote[c] = s.quota]
             s3 == [s2 EXCEPT !.surplus = MP_Surplus(s2, CandS(s))]
         IN [LogTransfer(s3, "transfer_surplus", <<c>>) EXCEPT !.pc = "count"]
    [] s.pc = "exclude" ->                                                             \* 167.70(c)(1)e
         IF Cardinality(HopefulS(s)) > SeatsLeft(s)
         THEN LET c == s.cur
                  J == {j \in 1 .. NLines(s) : TopOf(s, j) = c}
                  s1 == MoveBallots(s, J, [j \in 1 .. NLines(s) |-> s.bal[j].w], HopefulS(s))
                  s2 == [s1 EXCEPT !.vote[c] = 0]
                  s3 == [s2 EXCEPT !.surplus = MP_Surplus(s2, CandS(s))]
              IN [LogTransfer(s3, "transfer_defeated", <<c>>) EXCEPT !.pc = "count"]
         ELSE MP_FinishStep(MP_Finish(s))                                              \* last round: votes are not transferred
    [] s.pc = "finish" -> MP_FinishStep(s)
=============================================================================
