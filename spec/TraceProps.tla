----------------------------- MODULE TraceProps -----------------------------
(***************************************************************************)
(* Code -> spec: every trace recorded from the real implementation (one    *)
(* JSON object per line in IOEnv.TRACE_FILE, written by harness/drive.py)  *)
(* is judged by the property operators of Props.tla.  One verdict line per *)
(* trace (total verdicts: the runner checks that every trace got one).     *)
(***************************************************************************)
EXTENDS Props, Json, IOUtils, TLCExt
CONSTANTS PropSet, NW
Traces == ndJsonDeserialize(IOEnv.TRACE_FILE)
VARIABLE i
Init == i \in 1 .. NW
Next == i + NW <= Len(Traces) /\ i' = i + NW
Verdict(t) == UNION {FailOf(p, Traces[t]) : p \in PropSet}
Judged == IF i <= Len(Traces)
          THEN PrintT(ToString(<<"VERDICT", Traces[i].id, Verdict(i)>>))
          ELSE TRUE
=============================================================================
