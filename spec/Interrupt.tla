----------------------------- MODULE Interrupt -----------------------------
(***************************************************************************)
(* C19: an interrupted count can always be reported.                       *)
(* Abstract model of droop/record.py + Election.report/dump/json(intr):   *)
(* the record is a list of actions plus a header that is filled lazily,   *)
(* one key at a time (_fill), on the first begin/count/round action.      *)
(* A user interrupt can arrive between any two assignments.  Afterwards   *)
(* the driver calls report(True), dump(True), json(True) (Droop.main).    *)
(***************************************************************************)
EXTENDS Integers, Sequences, FiniteSets, TLC

CONSTANTS MAXACTS,          \* bound on the number of actions of the abstract count
          FILL_ON_DEMAND    \* TRUE: report()/dump() fill a missing header first (the code as repaired, known_findings F9)

FillOrder == <<"title", "droop_name", "droop_version", "rule_name", "rule_info", "method", "arithmetic_name",
               "arithmetic_info", "seats", "nballots", "quota", "cids", "ecids", "cdict", "options">>
ReportReads(nonlog) == {"title", "droop_name", "droop_version", "rule_info", "arithmetic_info", "seats", "nballots", "quota"}
                       \cup (IF nonlog > 0 THEN {"cids", "cdict"} ELSE {})
DumpReads == {"ecids", "cdict"}

VARIABLES acts,       \* sequence of tags appended so far ("log", "first" = begin/count/round, "other")
          keys,       \* header keys assigned
          filled, fillpc,   \* _fill progress (0 = not in _fill)
          intr,       \* interrupted
          marker,     \* number of interrupt markers logged
          rendered    \* renderings produced so far: set of <<kind, ok>>
vars == <<acts, keys, filled, fillpc, intr, marker, rendered>>

Init == acts = <<>> /\ keys = {} /\ filled = FALSE /\ fillpc = 0 /\ intr = FALSE /\ marker = 0 /\ rendered = {}

NonLog(a) == Cardinality({k \in DOMAIN a : a[k] \notin {"log", "marker"}})

(* Candidates.add() logs `Add eligible' before the count starts; E.logAction('log', ..) never fills *)
LogAct == ~intr /\ fillpc = 0 /\ Len(acts) < MAXACTS /\ acts' = Append(acts, "log")
          /\ UNCHANGED <<keys, filled, fillpc, intr, marker, rendered>>
(* first begin/count/round action: _fill runs first, key by key, then the action is appended *)
StartFill == ~intr /\ fillpc = 0 /\ ~filled /\ Len(acts) < MAXACTS /\ fillpc' = 1
             /\ UNCHANGED <<acts, keys, filled, intr, marker, rendered>>
FillStep == ~intr /\ fillpc \in 1 .. Len(FillOrder)
            /\ keys' = keys \cup {FillOrder[fillpc]} /\ fillpc' = fillpc + 1
            /\ UNCHANGED <<acts, filled, intr, marker, rendered>>
EndFill == ~intr /\ fillpc = Len(FillOrder) + 1 /\ filled' = TRUE /\ fillpc' = 0 /\ acts' = Append(acts, "first")
           /\ UNCHANGED <<keys, intr, marker, rendered>>
OtherAct == ~intr /\ fillpc = 0 /\ filled /\ Len(acts) < MAXACTS /\ acts' = Append(acts, "other")
            /\ UNCHANGED <<keys, filled, fillpc, intr, marker, rendered>>

Interrupt == ~intr /\ intr' = TRUE /\ UNCHANGED <<acts, keys, filled, fillpc, marker, rendered>>

(* Election.report/dump/json(intr=True): log the marker once, then render *)
Render(kind) ==
  /\ intr /\ ~\E r \in rendered : r[1] = kind
  /\ LET a1 == IF marker = 0 THEN Append(acts, "marker") ELSE acts
         k1 == IF kind \in {"report", "dump"} /\ ~filled /\ FILL_ON_DEMAND THEN {FillOrder[j] : j \in DOMAIN FillOrder} ELSE keys
         reads == IF kind = "report" THEN ReportReads(NonLog(a1)) ELSE IF kind = "dump" THEN DumpReads ELSE {}
     IN /\ acts' = a1 /\ marker' = (IF marker = 0 THEN 1 ELSE marker)
        /\ keys' = k1 /\ filled' = (filled \/ k1 # keys)
        /\ rendered' = rendered \cup {<<kind, reads \subseteq k1>>}
  /\ UNCHANGED <<fillpc, intr>>

Next == LogAct \/ StartFill \/ FillStep \/ EndFill \/ OtherAct \/ Interrupt
        \/ Render("report") \/ Render("dump") \/ Render("json")
Spec == Init /\ [][Next]_vars

(* every rendering of an interrupted count succeeds ... *)
RenderingsSucceed == \A r \in rendered : r[2]
(* ... the marker is logged exactly once, last ... *)
MarkedOnce == marker <= 1 /\ (rendered # {} => marker = 1 /\ acts[Len(acts)] = "marker")
(* ... and the actions before it are what the count had recorded (nothing is invented or dropped) *)
PrefixKept == \A k \in DOMAIN acts : acts[k] = "marker" => k = Len(acts)
=============================================================================
