-------------------------------- MODULE Num --------------------------------
(***************************************************************************)
(* C12, C13(a), C14: the laws of the arithmetic classes, stated            *)
(* relationally over one call record                                       *)
(*   R = [cls, p, g, d, S, geps, op, rnd, a, b, c, r, same_cls, ...]       *)
(* Fixed/Guarded numbers are integers in units of 1/S (S = 10^(p+g));      *)
(* Rational numbers are <<num, den>> pairs compared by cross-multiplying.  *)
(* The same laws are (i) model-checked on the specification's own          *)
(* operators over an operand grid (MCNum.tla) and (ii) evaluated by TLC on *)
(* calls recorded from the real classes (TraceArith.tla).                  *)
(***************************************************************************)
EXTENDS Props, BigNum

(* r = floor(x / y) for y # 0, stated without division (floor toward minus infinity, as Python's //) *)
IsFloorDiv(r, x, y) == IF y > 0 THEN r * y <= x /\ x - r * y < y          \* (not (r+1)*y: that product may leave 32 bits)
                       ELSE r * y >= x /\ x - r * y > y
Exact(x, y) == x % Abs(y) = 0
IsRounded(r, x, y, rnd) ==      \* floor, or floor + 1 iff upward rounding was requested and the quotient is inexact
  IF rnd = "up" /\ ~Exact(x, y) THEN IsFloorDiv(r - 1, x, y) ELSE IsFloorDiv(r, x, y)

(* does a guarded class round?  only with guard = 0 (then it must be indistinguishable from Fixed) *)
EffRnd(R) == IF R.cls = "guarded" /\ R.g > 0 THEN "down" ELSE IF R.rnd = "up" THEN "up" ELSE "down"

CmpWant(R, x, y) ==        \* <<lt, le, eq, ne, gt, ge>> of the arithmetic's own order
  IF R.cls = "guarded"
  THEN LET e == Abs(x - y) < R.geps IN <<~e /\ x < y, e \/ x < y, e, ~e, ~e /\ x > y, e \/ x > y>>
  ELSE <<x < y, x <= y, x = y, x # y, x > y, x >= y>>

ScaledLaw(R) ==
  CASE R.op = "add"    -> R.r = R.a + R.b
    [] R.op = "sub"    -> R.r = R.a - R.b
    [] R.op = "neg"    -> R.r = -R.a
    [] R.op = "pos"    -> R.r = R.a
    [] R.op = "abs"    -> R.r = Abs(R.a)
    [] R.op = "addint" -> R.r = R.a + R.b * R.S
    [] R.op = "mulint" -> R.r = R.a * R.b
    [] R.op = "floordivint" -> R.b # 0 /\ IsFloorDiv(R.r, R.a, R.b)
    [] R.op = "mul"    -> IsRounded(R.r, R.a * R.b, R.S, EffRnd(R))
    [] R.op = "div"    -> R.b # 0 /\ IsRounded(R.r, R.a * R.S, R.b, EffRnd(R))
    [] R.op = "muldiv" -> R.c # 0 /\ IsRounded(R.r, R.a * R.b, R.c, EffRnd(R))
    [] R.op = "cmp"    -> R.flags = CmpWant(R, R.a, R.b) /\ Cardinality({k \in {1, 3, 5} : R.flags[k]}) = 1
    [] R.op = "min"    -> R.r = Min2(R.a, Min2(R.b, R.c))
    [] R.op = "fromint" -> R.r = R.a * R.S
    [] OTHER -> FALSE

(* rationals: x = <<n, d>> with d > 0 *)
REq(x, y) == x[1] * y[2] = y[1] * x[2]
RLt(x, y) == x[1] * y[2] < y[1] * x[2]
RationalLaw(R) ==
  LET a == R.a  b == R.b  c == R.c  r == R.r IN
  CASE R.op = "add"    -> REq(r, <<a[1] * b[2] + b[1] * a[2], a[2] * b[2]>>)
    [] R.op = "sub"    -> REq(r, <<a[1] * b[2] - b[1] * a[2], a[2] * b[2]>>)
    [] R.op = "neg"    -> REq(r, <<-a[1], a[2]>>)
    [] R.op = "abs"    -> REq(r, <<Abs(a[1]), a[2]>>)
    [] R.op = "mul"    -> REq(r, <<a[1] * b[1], a[2] * b[2]>>)
    [] R.op = "div"    -> b[1] # 0 /\ REq(r, IF b[1] > 0 THEN <<a[1] * b[2], a[2] * b[1]>> ELSE <<-a[1] * b[2], -a[2] * b[1]>>)
    [] R.op = "muldiv" -> c[1] # 0 /\ REq(r, IF c[1] > 0 THEN <<a[1] * b[1] * c[2], a[2] * b[2] * c[1]>> ELSE <<-a[1] * b[1] * c[2], -a[2] * b[2] * c[1]>>)
    [] R.op = "cmp"    -> R.flags = <<RLt(a, b), RLt(a, b) \/ REq(a, b), REq(a, b), ~REq(a, b), RLt(b, a), RLt(b, a) \/ REq(a, b)>>
    [] R.op = "min"    -> \/ (REq(r, a) /\ ~RLt(b, a) /\ ~RLt(c, a)) \/ (REq(r, b) /\ ~RLt(a, b) /\ ~RLt(c, b)) \/ (REq(r, c) /\ ~RLt(a, c) /\ ~RLt(b, c))
    [] OTHER -> FALSE

(* C14: the printed form is the exact value rounded half-up to d display digits *)
(* R.str = [neg, ip, fr, fd, gfr, gfd]: '-' sign, integer part, fraction digits (value, count), guard digits after '_' *)
RECURSIVE Pow(_)
Pow(k) == IF k = 0 THEN 1 ELSE 10 * Pow(k - 1)
PrintedUnits(R) == (R.str.ip * Pow(R.str.fd) + R.str.fr) * Pow(R.str.gfd) + R.str.gfr      \* in units of 10^-(fd+gfd)
Signed(R, x) == IF R.str.neg THEN -x ELSE x
PrintLaw(R) ==
  LET dd == R.str.fd + R.str.gfd
      zero == R.dEff = 0          \* format convention: "%d.%00d" prints the rounded integer followed by ".0"
      plain == R.cls # "rational" /\ R.p + R.g = 0      \* integer arithmetic prints the bare integer
      DD == IF zero \/ plain THEN 1 ELSE Pow(dd)
      pu == Signed(R, IF zero /\ ~plain THEN R.str.ip ELSE PrintedUnits(R))
  IN /\ (IF plain THEN dd = 0 ELSE IF zero THEN dd = 1 /\ R.str.fr = 0 ELSE dd = R.dEff)
     /\ (IF R.cls = "rational"
         THEN IsFloorDiv(pu, 2 * R.a[1] * DD + R.a[2], 2 * R.a[2])          \* floor(x*D + 1/2)
         ELSE IsFloorDiv(pu, 2 * R.a * DD + R.S, 2 * R.S))
     /\ (R.str.neg => pu <= 0)
     /\ (R.cls = "guarded" /\ R.dEff > R.p => R.str.fd = R.p /\ R.str.gfd = R.dEff - R.p)
     /\ (~(R.cls = "guarded" /\ R.dEff > R.p) => R.str.gfd = 0)

(* ---------- the same laws on operands of any size (limb-encoded records: R.big = TRUE) ---------- *)
BEffRnd(R) == IF R.cls = "guarded" /\ R.g > 0 THEN "down" ELSE IF R.rnd = "up" THEN "up" ELSE "down"
BigCmpWant(R) ==
  IF R.cls = "guarded"
  THEN LET e == BLt(BAbs(BSub(R.a, R.b)), R.gepsb) IN
       <<~e /\ BLt(R.a, R.b), e \/ BLt(R.a, R.b), e, ~e, ~e /\ BLt(R.b, R.a), e \/ BLt(R.b, R.a)>>
  ELSE <<BLt(R.a, R.b), BLe(R.a, R.b), BEq(R.a, R.b), ~BEq(R.a, R.b), BLt(R.b, R.a), BLe(R.b, R.a)>>
BigLaw(R) ==
  CASE R.op = "add"    -> BEq(R.r, BAdd(R.a, R.b))
    [] R.op = "sub"    -> BEq(R.r, BSub(R.a, R.b))
    [] R.op = "neg"    -> BEq(R.r, BNeg(R.a))
    [] R.op = "abs"    -> BEq(R.r, BAbs(R.a))
    [] R.op = "mulint" -> BEq(R.r, BMul(R.a, R.b))
    [] R.op = "floordivint" -> ~BIsZero(R.b) /\ BIsFloorDiv(R.r, R.a, R.b)
    [] R.op = "mul"    -> BIsRounded(R.r, BMul(R.a, R.b), R.Sb, BEffRnd(R))
    [] R.op = "div"    -> ~BIsZero(R.b) /\ BIsRounded(R.r, BMul(R.a, R.Sb), R.b, BEffRnd(R))
    [] R.op = "muldiv" -> ~BIsZero(R.c) /\ BIsRounded(R.r, BMul(R.a, R.b), R.c, BEffRnd(R))
    [] R.op = "cmp"    -> R.flags = BigCmpWant(R)
    [] R.op = "str"    -> R.unchanged /\ BIsFloorDiv(R.pu, BAdd(BMul(BMul(BSmall(2), R.a), R.Db), R.Sb), BMul(BSmall(2), R.Sb)) /\ R.digits_ok
    [] R.op = "strq"   -> R.unchanged /\ R.digits_ok           \* rational a/ad: floor(a*D/ad + 1/2) = floor((2aD + ad) / 2ad)
                          /\ BIsFloorDiv(R.pu, BAdd(BMul(BMul(BSmall(2), R.a), R.Db), R.ad), BMul(BSmall(2), R.ad))
    [] OTHER -> FALSE
BigFails(R) ==
  (IF R.same_cls THEN {} ELSE {"C12:result_class"}) \cup
  (IF BigLaw(R) THEN {}
   ELSE {(IF R.op \in {"str", "strq"} THEN "C14:print_big"
          ELSE IF R.op = "cmp" /\ R.cls = "guarded" THEN "C13:big_cmp" ELSE IF R.cls = "guarded" THEN "C13:g_big_" \o R.op ELSE "C12:big_" \o R.op)})

Negative(R) == IF R.cls = "rational" THEN R.a[1] < 0 ELSE R.a < 0
NumFails(R) ==
  IF R.oor THEN {"C12:result_out_of_range", "C13:result_out_of_range"} ELSE
  IF R.big THEN BigFails(R) ELSE
  IF R.op = "str"
  THEN (IF ~R.unchanged THEN {"C14:value_changed"} ELSE {}) \cup
       (* C13: with zero guard digits a guarded value prints exactly as the fixed value of the same precision does *)
       (IF R.cls = "guarded" /\ R.g = 0 /\ "twin_same" \in DOMAIN R /\ ~R.twin_same THEN {"C13:g0_prints_unlike_fixed"} ELSE {}) \cup
       (IF PrintLaw(R) THEN {}
        (* F21: guarded with ZERO precision digits shown beyond its precision: "%d.%00d_%0gd" prints a spurious 0 before the underscore *)
        ELSE IF R.cls = "guarded" /\ R.p = 0 /\ R.dEff > 0 /\ R.str.fd = 1 /\ R.str.fr = 0 /\ PrintLaw([R EXCEPT !.str.fd = 0]) THEN {"C14:KNOWN_F21"}
        ELSE {"C14:print"})
  ELSE (IF R.same_cls THEN {} ELSE {"C12:result_class"}) \cup
       (IF (IF R.cls = "rational" THEN RationalLaw(R) ELSE ScaledLaw(R)) THEN {}
        ELSE {(IF R.op = "cmp" /\ R.cls = "guarded" THEN "C13:" ELSE IF R.cls = "guarded" THEN "C13:g_" ELSE "C12:") \o R.op})
=============================================================================
