------------------------------- MODULE BigNum -------------------------------
(***************************************************************************)
(* Arbitrary-size integers for the laws of C12-C14 on operands far beyond  *)
(* 32 bits ("huge magnitudes"): a number is [neg, mag] with mag a sequence *)
(* of base-10^4 limbs, least significant first, no leading zero limbs      *)
(* (zero = <<>>).  Limb products stay below 10^8, column sums below 2^31   *)
(* for up to 20 limbs.  Only what the RELATIONAL laws need is provided:    *)
(* add, sub, mul, compare -- results of the real code are in the record,   *)
(* nothing has to be divided here.                                          *)
(***************************************************************************)
EXTENDS Integers, Sequences, TLC
BASE == 10000

Limb(m, i) == IF i <= Len(m) THEN m[i] ELSE 0
RECURSIVE Trim(_)
Trim(m) == IF m # <<>> /\ m[Len(m)] = 0 THEN Trim(SubSeq(m, 1, Len(m) - 1)) ELSE m

RECURSIVE AddMag(_, _, _, _)
AddMag(x, y, i, carry) ==
  IF i > Len(x) /\ i > Len(y) THEN (IF carry = 0 THEN <<>> ELSE <<carry>>)
  ELSE LET s == Limb(x, i) + Limb(y, i) + carry IN <<s % BASE>> \o AddMag(x, y, i + 1, s \div BASE)
RECURSIVE CmpMagFrom(_, _, _)
CmpMagFrom(x, y, i) == IF i = 0 THEN 0 ELSE IF x[i] < y[i] THEN -1 ELSE IF x[i] > y[i] THEN 1 ELSE CmpMagFrom(x, y, i - 1)
CmpMag(x, y) == IF Len(x) < Len(y) THEN -1 ELSE IF Len(x) > Len(y) THEN 1 ELSE CmpMagFrom(x, y, Len(x))
RECURSIVE SubMag(_, _, _, _)      \* x >= y
SubMag(x, y, i, borrow) ==
  IF i > Len(x) THEN <<>>
  ELSE LET d == x[i] - Limb(y, i) - borrow IN
       IF d < 0 THEN <<d + BASE>> \o SubMag(x, y, i + 1, 1) ELSE <<d>> \o SubMag(x, y, i + 1, 0)
(* schoolbook product: column k collects x[i]*y[k-i+1]; carries propagate upward *)
RECURSIVE ColSum(_, _, _, _)
ColSum(x, y, k, i) == IF i > Len(x) \/ i > k THEN 0
                      ELSE (IF k - i + 1 <= Len(y) THEN x[i] * y[k - i + 1] ELSE 0) + ColSum(x, y, k, i + 1)
RECURSIVE MulCols(_, _, _, _)
MulCols(x, y, k, carry) ==
  IF k > Len(x) + Len(y) THEN (IF carry = 0 THEN <<>> ELSE <<carry % BASE>> \o (IF carry \div BASE = 0 THEN <<>> ELSE <<carry \div BASE>>))
  ELSE LET s == ColSum(x, y, k, 1) + carry IN <<s % BASE>> \o MulCols(x, y, k + 1, s \div BASE)
MulMag(x, y) == IF x = <<>> \/ y = <<>> THEN <<>> ELSE Trim(MulCols(x, y, 1, 0))

Norm(n) == LET m == Trim(n.mag) IN [neg |-> n.neg /\ m # <<>>, mag |-> m]
BZero == [neg |-> FALSE, mag |-> <<>>]
BNeg(a) == Norm([neg |-> ~a.neg, mag |-> a.mag])
BAdd(a, b) ==
  IF a.neg = b.neg THEN Norm([neg |-> a.neg, mag |-> AddMag(a.mag, b.mag, 1, 0)])
  ELSE IF CmpMag(a.mag, b.mag) >= 0 THEN Norm([neg |-> a.neg, mag |-> Trim(SubMag(a.mag, b.mag, 1, 0))])
  ELSE Norm([neg |-> b.neg, mag |-> Trim(SubMag(b.mag, a.mag, 1, 0))])
BSub(a, b) == BAdd(a, BNeg(b))
BMul(a, b) == Norm([neg |-> a.neg # b.neg, mag |-> MulMag(a.mag, b.mag)])
BCmp(a, b) == IF a.neg /\ ~b.neg THEN -1 ELSE IF ~a.neg /\ b.neg THEN 1
              ELSE IF a.neg THEN CmpMag(b.mag, a.mag) ELSE CmpMag(a.mag, b.mag)
BLt(a, b) == BCmp(a, b) < 0
BLe(a, b) == BCmp(a, b) <= 0
BEq(a, b) == BCmp(a, b) = 0
BAbs(a) == [neg |-> FALSE, mag |-> a.mag]
BSmall(k) == IF k = 0 THEN BZero ELSE Norm([neg |-> k < 0, mag |-> <<(IF k < 0 THEN -k ELSE k) % BASE, ((IF k < 0 THEN -k ELSE k) \div BASE) % BASE, (IF k < 0 THEN -k ELSE k) \div (BASE * BASE)>>])
BIsZero(a) == a.mag = <<>>

(* r = floor(x / y), y # 0, stated without division: r*y <= x < r*y + y (mirrored for negative y) *)
BIsFloorDiv(r, x, y) == LET ry == BMul(r, y) IN
                        IF ~y.neg THEN BLe(ry, x) /\ BLt(BSub(x, ry), y) ELSE BLe(x, ry) /\ BLt(y, BSub(x, ry))
(* floor, or floor + 1 iff upward rounding was requested and the quotient is inexact *)
BIsRounded(r, x, y, rnd) ==
  IF rnd = "up"
  THEN BEq(BMul(r, y), x) \/ (LET r1 == BSub(r, BSmall(1)) IN BIsFloorDiv(r1, x, y) /\ ~BEq(BMul(r1, y), x))
  ELSE BIsFloorDiv(r, x, y)
=============================================================================
