------------------------------ MODULE RuleWigm ------------------------------
(***************************************************************************)
(* wigm, wigm-prf, wigm-prf-batch: droop/rules/wigm.py, wigm_prf.py.        *)
(* Clause ids refer to the PRF Reference WIGM rule quoted in the docstring *)
(* of wigm_prf.py (A.1-A.5, B.1-B.4, C, D.1-D.4).  TEXT = transcribes a    *)
(* clause; IMPL = the text is silent, the specification follows the code;  *)
(* DEV = the code departs from an explicit clause (enabled iff the id is   *)
(* in h.devs; the text's own behaviour is the other branch).               *)
(***************************************************************************)
EXTENDS Election

IsPrf(h) == h.rule \in {"wigm-prf", "wigm-prf-batch"}

(* A.1 quota: n/(s+1) truncated (D.4) plus 0.0001; wigm: integer_quota / exact variants *)
W_Quota(h) ==
  IF h.intq THEN VInt(h, 1 + (h.n \div (h.seats + 1)))
  ELSE IF h.exactq THEN VDiv(h, VInt(h, h.n), VInt(h, h.seats + 1))
  ELSE VDiv(h, VInt(h, h.n), VInt(h, h.seats + 1)) + 1
W_HasQuota(s, c) == IF s.h.exactq THEN VGT(s.h, s.vote[c], s.quota) ELSE s.vote[c] >= s.quota

(* B.1 the hopefuls with a quota, highest vote first (IMPL: order of simultaneous elections) *)
W_ElectList(s) == SelectSeq(ByVoteDesc(s.vote, HopefulS(s)), LAMBDA c : W_HasQuota(s, c))

(* B.2 sure losers (wigm_prf.batchDefeat) *)
RECURSIVE GroupFold(_, _, _, _, _, _, _)
GroupFold(h, v, q, i, cv, gs, sur) ==
  IF i > Len(q) THEN gs
  ELSE LET c == q[i] IN
       IF VGE(h, cv + sur, v[c])
       THEN GroupFold(h, v, q, i + 1, cv, [gs EXCEPT ![Len(gs)] = Append(@, c)], sur)
       ELSE GroupFold(h, v, q, i + 1, v[c],
                      IF gs[Len(gs)] = <<>> THEN [gs EXCEPT ![Len(gs)] = <<c>>] ELSE Append(gs, <<c>>), sur)
SortedGroups(h, v, H, sur) ==
  LET gs == GroupFold(h, v, ByVoteAsc(v, H), 1, 0, << <<>> >>, sur) IN
  IF gs = << <<>> >> THEN <<>> ELSE gs
RECURSIVE ScanGroups(_, _, _, _, _, _, _, _, _)
ScanGroups(h, v, gs, g, ncand, vote, maxg, maxDefeat, sur) ==
  IF g > Len(gs) - 1 THEN maxg
  ELSE LET n2 == ncand + Len(gs[g]) IN
       IF n2 > maxDefeat THEN maxg                                        \* B.2.a
       ELSE LET v2 == vote + Sum([i \in 1 .. Len(gs[g]) |-> v[gs[g][i]]]) IN
            ScanGroups(h, v, gs, g + 1, n2, v2,
                       IF VLT(h, v2 + sur, v[gs[g + 1][1]]) THEN g ELSE maxg,   \* B.2.c
                       maxDefeat, sur)
RECURSIVE Concat(_, _)
Concat(gs, k) == IF k = 0 THEN <<>> ELSE Concat(gs, k - 1) \o gs[k]
SureLosers(s) ==
  LET sur == Sum([c \in CandS(s) |-> IF c \in PendingS(s) THEN s.vote[c] - s.quota ELSE 0])
      gs == SortedGroups(s.h, s.vote, HopefulS(s), sur)
      maxg == ScanGroups(s.h, s.vote, gs, 1, 0, 0, 0, Cardinality(HopefulS(s)) - SeatsLeft(s), sur)
  IN Concat(gs, maxg)

(* C. finish: pending -> elected (no log); remaining hopefuls elected or defeated in set order *)
W_Finish(s) == [s EXCEPT !.pend = [c \in CandS(s) |-> FALSE], !.pc = "finish", !.flag = FALSE]
W_FinishStep(s) ==
  IF HopefulS(s) # {}
  THEN LET c == SetOrder(HopefulS(s))[1] IN
       IF Cardinality(ElectedS(s)) < s.h.seats THEN Elect(s, c, "elect_remaining", FALSE)
       ELSE Defeat(s, c, "defeat_remaining")
  ELSE [Log(s, "end", "end", 0) EXCEPT !.pc = "done"]

(* B.3 / B.4 choice, with D.1 tie-break logged as its own action *)
W_Choose(s) ==
  IF PendingS(s) # {}
  THEN LET high == PyMaxOver(s, s.vote, PendingS(s))
           tied == {c \in PendingS(s) : VEQ(s.h, s.vote[c], high)}
           hc == FirstInTieOrder(s, tied)
       IN IF Cardinality(tied) > 1 /\ ~s.flag
          THEN [LogTie(s, "tie", "surplus", tied, hc) EXCEPT !.pc = "choose", !.flag = TRUE]
          ELSE [Log([s EXCEPT !.pend[hc] = FALSE], "unpend", "unpend", hc) EXCEPT !.pc = "surplus", !.cur = hc, !.flag = FALSE]
  ELSE LET low == PyMinOver(s, s.vote, HopefulS(s))
           tied == {c \in HopefulS(s) : VEQ(s.h, s.vote[c], low)}
           lc == FirstInTieOrder(s, tied)
       IN IF s.h.rule = "wigm" /\ s.h.batch = "zero" /\ VEQ(s.h, low, 0)
             /\ Cardinality(HopefulS(s)) - Cardinality(tied) >= SeatsLeft(s)
          THEN LET q == SetOrder(tied) IN      \* IMPL: defeat_batch=zero, all zero-vote hopefuls in set order
               [Defeat(s, q[1], "defeat_zero") EXCEPT !.pc = "zerodefeat", !.q = Tail(q), !.q2 = q]
          ELSE IF Cardinality(tied) > 1 /\ ~s.flag
          THEN [LogTie(s, "tie", "defeat", tied, lc) EXCEPT !.pc = "choose", !.flag = TRUE]
          ELSE [Defeat(s, lc, "defeat") EXCEPT !.pc = "exclude", !.cur = lc, !.flag = FALSE]

(* after B.1: D.3 test (text) -- the code has none here (DEV_PRF_B1) *)
W_AfterElect(s) ==
  IF IsPrf(s.h) /\ SeatsLeft(s) = 0 /\ "DEV_PRF_B1" \notin s.h.devs
  THEN W_FinishStep(W_Finish(s))                                          \* TEXT B.1 "Test count complete (D.3)"
  ELSE LET s1 == IF IsPrf(s.h) /\ SeatsLeft(s) = 0 THEN [s EXCEPT !.devs = @ \cup {"DEV_PRF_B1"}] ELSE s IN
       IF s1.h.rule = "wigm-prf-batch" /\ SureLosers(s1) # <<>>
       THEN LET sure == SureLosers(s1)
                q == SetOrder(SeqToSet(sure))                             \* C.byBallotOrder(sureLosers)
            IN [Defeat(s1, q[1], "defeat_sure") EXCEPT !.pc = "batchdefeat", !.q = Tail(q), !.q2 = sure]
       ELSE W_Choose(s1)

W_Loop(s) ==
  IF Cardinality(HopefulS(s)) > SeatsLeft(s) /\ SeatsLeft(s) > 0
  THEN [NewRound(s) EXCEPT !.pc = "elect"]
  ELSE W_FinishStep(W_Finish(s))

Step_wigm(s) ==
  CASE s.pc = "start" ->
         LET s1 == [s EXCEPT !.quota = W_Quota(s.h), !.vote = FirstPrefs(s)] IN
         [Log(s1, "begin", "begin", 0) EXCEPT !.pc = "loop"]              \* A.1-A.5
    [] s.pc = "loop" -> W_Loop(s)                                          \* D.3 (as the while condition)
    [] s.pc = "elect" ->                                                   \* B.1
         LET L == W_ElectList(s) IN
         IF L # <<>> THEN Elect(s, L[1], "elect_pending", TRUE) ELSE W_AfterElect(s)
    [] s.pc = "batchdefeat" ->                                             \* B.2
         IF s.q # <<>> THEN [Defeat(s, s.q[1], "defeat_sure") EXCEPT !.q = Tail(s.q)]
         ELSE IF Cardinality(HopefulS(s)) <= SeatsLeft(s) THEN W_FinishStep(W_Finish(s))   \* B.2 "test count complete"
         ELSE LET D == SeqToSet(s.q2)
                  J == {j \in 1 .. NLines(s) : TopOf(s, j) \in D}
                  s1 == MoveBallots(s, J, [j \in 1 .. NLines(s) |-> s.bal[j].w], HopefulS(s))
                  s2 == [s1 EXCEPT !.vote = [c \in CandS(s) |-> IF c \in D THEN 0 ELSE s1.vote[c]]]
              IN [LogTransfer(s2, "transfer_defeated", s.q2) EXCEPT !.pc = "loop", !.q2 = <<>>]
    [] s.pc = "choose" -> W_Choose(s)
    [] s.pc = "surplus" ->                                                 \* B.3, D.4: truncate after the product and after the quotient
         LET c == s.cur
             sur == s.vote[c] - s.quota
             J == {j \in 1 .. NLines(s) : TopOf(s, j) = c}
             w2 == [j \in 1 .. NLines(s) |-> IF j \in J THEN VDiv(s.h, VMul(s.h, s.bal[j].w, sur), s.vote[c]) ELSE s.bal[j].w]
             s1 == MoveBallots(s, J, w2, HopefulS(s))
             s2 == [s1 EXCEPT !.vote[c] = s.quota]
         IN [LogTransfer(s2, "transfer_surplus", <<c>>) EXCEPT !.pc = "loop"]
    [] s.pc = "exclude" ->                                                 \* B.4
         IF IsPrf(s.h) /\ Cardinality(HopefulS(s)) <= SeatsLeft(s) /\ "DEV_PRF_B4" \notin s.h.devs
         THEN W_FinishStep(W_Finish(s))                                    \* TEXT B.4 "Test count complete (D.3)" before the transfer
         ELSE LET c == s.cur
                  s0 == IF IsPrf(s.h) /\ Cardinality(HopefulS(s)) <= SeatsLeft(s) THEN [s EXCEPT !.devs = @ \cup {"DEV_PRF_B4"}] ELSE s
                  J == {j \in 1 .. NLines(s) : TopOf(s, j) = c}
                  s1 == MoveBallots(s0, J, [j \in 1 .. NLines(s) |-> s.bal[j].w], HopefulS(s))
                  s2 == [s1 EXCEPT !.vote[c] = 0]
              IN [LogTransfer(s2, "transfer_defeated", <<c>>) EXCEPT !.pc = "loop"]
    [] s.pc = "zerodefeat" ->                                              \* IMPL: wigm defeat_batch=zero
         IF s.q # <<>> THEN [Defeat(s, s.q[1], "defeat_zero") EXCEPT !.q = Tail(s.q)]
         ELSE LET c == s.q2[1]
                  J == {j \in 1 .. NLines(s) : TopOf(s, j) = c}
                  s1 == MoveBallots(s, J, [j \in 1 .. NLines(s) |-> s.bal[j].w], HopefulS(s))
                  s2 == [s1 EXCEPT !.vote[c] = 0]
              IN [LogTransfer(s2, "transfer_defeated", <<c>>) EXCEPT !.pc = IF Len(s.q2) > 1 THEN "zerodefeat" ELSE "loop", !.q2 = Tail(s.q2)]
    [] s.pc = "finish" -> W_FinishStep(s)                                  \* C
=============================================================================
