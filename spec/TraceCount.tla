----------------------------- MODULE TraceCount -----------------------------
(***************************************************************************)
(* Code -> spec conformance: a trace recorded from the real implementation *)
(* must be a behaviour of the rule's specification, in lock-step: the      *)
(* trace spec takes the SAME step function as Droop.tla (`Step'), one step *)
(* per recorded action, and binds every logged field of the observation.   *)
(* The count is initialised from the trace header, i.e. from the election  *)
(* as parsed by the code.  Many traces per TLC start: worker chain k runs  *)
(* traces k, k+NW, k+2NW, ...  One verdict line per trace.                 *)
(***************************************************************************)
EXTENDS RuleWigm, RuleScotland, RuleMpls, RuleCfer, RuleMeek, RuleQpq, Json, IOUtils, TLCExt
CONSTANTS NW, DEVS
Traces == ndJsonDeserialize(IOEnv.TRACE_FILE)
NT == Len(Traces)

VARIABLES i, l, s, warn, tau
vars == <<i, l, s, warn, tau>>

HdrOf(T) ==
  [rule |-> T.specrule, fam |-> T.fam, kind |-> T.kind, p |-> T.p, g |-> T.g, S |-> T.S, geps |-> T.geps,
   exactq |-> T.exactq, intq |-> T.intq, batch |-> T.batch, omega10 |-> T.omega10, omega |-> T.omega,
   nc |-> T.nc, seats |-> T.seats, wd |-> T.wd, und |-> T.und, tie |-> T.tie, lines |-> T.lines, eq |-> T.eq,
   n |-> T.n, devs |-> DEVS]

Step(st) ==
  CASE st.h.rule \in {"wigm", "wigm-prf", "wigm-prf-batch"} -> Step_wigm(st)
    [] st.h.rule = "scotland" -> Step_scotland(st)
    [] st.h.rule = "mpls" -> Step_mpls(st)
    [] st.h.rule \in {"cfer", "cfer-batch"} -> Step_cfer(st)
    [] st.h.rule \in {"meek", "warren", "meek-prf"} -> Step_meek(st)
    [] st.h.rule = "qpq" -> Step_qpq(st)

StartOf(k) == IF k <= NT THEN InitState(HdrOf(Traces[k])) ELSE [pc |-> "none"]

(* the fields C03 speaks about, then the implementation-only fields *)
SameSet(a, b) == RangeSet(a) = RangeSet(b)
FirstDiff(o, a, fam) ==
  CASE o.tag # a.tag -> "tag"
    [] o.subj # a.subj -> "subj"
    [] ~SameSet(o.subjs, a.subjs) -> "subjs"
    [] o.round # a.round -> "round"
    [] o.quota # a.quota -> "quota"
    [] o.st # a.st -> "st"
    [] o.pend # a.pend -> "pend"
    [] o.vote # a.vote -> "vote"
    [] o.kf # a.kf -> "kf"
    [] o.quot # a.quot -> "quot"
    [] o.nt # a.nt -> "nt"
    [] o.residual # a.residual -> "residual"
    [] ~SameSet(o.tied, a.tied) -> "tied"
    [] OTHER -> ""
ImplDiff(o, a, fam) ==
  (IF o.mc # a.mc THEN {"mc"} ELSE {}) \cup (IF o.surplus # a.surplus THEN {"surplus"} ELSE {}) \cup
  (IF o.votes # a.votes THEN {"votes"} ELSE {}) \cup (IF fam # "meek" /\ o.bal # a.bal THEN {"bal"} ELSE {}) \cup
  (IF o.va # a.va THEN {"va"} ELSE {}) \cup (IF o.tx # a.tx THEN {"tx"} ELSE {})

Acts == Traces[i].acts
LastObs(st) == st.hist[Len(st.hist)]
CanStep == i <= NT /\ l < Len(Acts) /\ s.pc # "done"
IsTau == CanStep /\ Len(Step(s).hist) = Len(s.hist) /\ tau < 5000     \* internal step (Meek iteration): nothing logged
StepOK == CanStep /\ LET s2 == Step(s) IN Len(s2.hist) = Len(s.hist) + 1 /\ FirstDiff(LastObs(s2), Acts[l + 1], Traces[i].fam) = ""

Init == i \in 1 .. NW /\ l = 0 /\ s = StartOf(i) /\ warn = {} /\ tau = 0

(* one recorded action consumed = one specification step taken *)
TraceStep == /\ StepOK
             /\ s' = Step(s) /\ l' = l + 1 /\ tau' = 0 /\ UNCHANGED i
             /\ warn' = warn \cup ImplDiff(LastObs(Step(s)), Acts[l + 1], Traces[i].fam)

Verdict ==
  IF l = Len(Acts) /\ s.pc = "done" THEN <<"CONF", Traces[i].id, "ACCEPT", l, "", s.devs, warn>>
  ELSE IF ~CanStep THEN <<"CONF", Traces[i].id, "REJECT", l + 1, IF s.pc = "done" THEN "spec finished, trace continues" ELSE "trace finished, spec continues", s.devs, warn>>
  ELSE LET s2 == Step(s) IN
       <<"CONF", Traces[i].id, "REJECT", l + 1,
         IF Len(s2.hist) # Len(s.hist) + 1 THEN "no spec step" ELSE FirstDiff(LastObs(s2), Acts[l + 1], Traces[i].fam), s.devs, warn>>

(* a silent specification step between two recorded actions, bounded per action *)
TraceTau == /\ IsTau
            /\ s' = Step(s) /\ tau' = tau + 1 /\ UNCHANGED <<i, l, warn>>

TraceAdvance == /\ i <= NT /\ ~StepOK /\ ~IsTau
                /\ PrintT(ToString(Verdict))
                /\ i' = i + NW /\ l' = 0 /\ s' = StartOf(i + NW) /\ warn' = {} /\ tau' = 0

Next == TraceStep \/ TraceTau \/ TraceAdvance
=============================================================================
