------------------------------- MODULE Droop -------------------------------
(***************************************************************************)
(* The count pipeline as one state machine: a setup phase that builds the  *)
(* election (so that TLC enumerates every profile of the bounded scope as  *)
(* a multiset of ballot lines in canonical order), then the rule's         *)
(* counting procedure, one step per logAction.  The count itself is a      *)
(* function of the state (`Step'), so it can also be run to completion     *)
(* inside one expression (`Run') for the metamorphic properties.           *)
(***************************************************************************)
EXTENDS RuleWigm, RuleScotland, RuleMpls, RuleCfer, RuleMeek, RuleQpq, Pairs, Json

CONSTANTS
  CONFIGS,     \* set of [rule, kind, p, g, intq, batch, omega10] records to explore
  NC,          \* number of candidates
  MAXB,        \* maximum number of ballots
  MAXM,        \* maximum multiplier of one ballot line
  SEATSET,     \* seat counts
  TIESET,      \* tie orders: set of sequences (position of each candidate), or {} for all
  WDSET,       \* sets of withdrawn candidates to explore
  UNDSET,      \* sets of undeclared candidates to explore (mpls)
  DEVS,        \* enabled deviation arms (CodeSpec = all known, TextSpec = {})
  CHECK,       \* set of property ids evaluated at the end of every count
  KNOWNCL,     \* clause names of listed known findings (known_findings.json) that the model reproduces
  EXPORT       \* print every n-th finished count as a JSON case (0 = none)

VARIABLE s
vars == <<s>>

FamOf(rule) == IF rule \in {"meek", "warren", "meek-prf"} THEN "meek" ELSE IF rule = "qpq" THEN "qpq" ELSE "greg"

MkHeader(cfg, seats, wd, und, tie, lines) ==
  [rule |-> cfg.rule, fam |-> FamOf(cfg.rule),
   kind |-> IF cfg.kind = "fixed" /\ cfg.p = 0 THEN "integer" ELSE cfg.kind,
   p |-> cfg.p, g |-> cfg.g, S |-> Pow10(cfg.p + cfg.g),
   geps |-> IF cfg.kind = "guarded" THEN Max2(Pow10(cfg.g) \div 2, 1) ELSE 1,
   exactq |-> cfg.kind = "guarded" /\ cfg.g > 0,
   intq |-> cfg.intq, batch |-> cfg.batch, omega10 |-> cfg.omega10,
   omega |-> IF FamOf(cfg.rule) = "meek" THEN Pow10(cfg.p + cfg.g) \div Pow10(cfg.omega10) ELSE 0,
   nc |-> NC, seats |-> seats, wd |-> wd, und |-> und, tie |-> tie, lines |-> lines, eq |-> <<>>,
   n |-> Sum([j \in 1 .. Len(lines) |-> lines[j].m]), devs |-> DEVS]

(* ---------- setup: every strict partial ranking over the non-withdrawn candidates ---------- *)
RECURSIVE RankKey(_, _, _)
RankKey(r, i, k) == IF i > Len(r) THEN k ELSE RankKey(r, i + 1, k * (NC + 1) + r[i])
Key(r) == RankKey(r, 1, 0)
Injective(r) == \A i, j \in DOMAIN r : i # j => r[i] # r[j]
Rankings(wdset) == {r \in UNION {[1 .. k -> (1 .. NC) \ wdset] : k \in 1 .. NC} : Injective(r)}
AllPerms == {t \in [1 .. NC -> 1 .. NC] : Injective(t)}
Ties == IF TIESET = {} THEN AllPerms ELSE TIESET

Init == \E cfg \in CONFIGS, seats \in SEATSET, wd \in WDSET, und \in UNDSET, tie \in Ties :
          /\ seats <= NC - Cardinality(wd)
          /\ und \cap wd = {}
          /\ (und # {} => cfg.rule = "mpls")
          /\ s = [pc |-> "setup", cfg |-> cfg, seats |-> seats, wdset |-> wd, undset |-> und, tie |-> tie,
                  lines |-> <<>>, lastkey |-> 0, total |-> 0]

AddLine == /\ s.pc = "setup"
           /\ \E r \in Rankings(s.wdset), m \in 1 .. MAXM :
                /\ Key(r) > s.lastkey
                /\ s.total + m <= MAXB
                /\ s' = [s EXCEPT !.lines = Append(@, [m |-> m, r |-> r]), !.lastkey = Key(r), !.total = @ + m]

StartCount == /\ s.pc = "setup"
              /\ s.total >= NC - Cardinality(s.wdset)        \* profile validity: ballots >= eligible candidates
              /\ s' = InitState(MkHeader(s.cfg, s.seats, [c \in 1 .. NC |-> c \in s.wdset],
                                         [c \in 1 .. NC |-> c \in s.undset], s.tie, s.lines))

(* ---------- the count ---------- *)
Step(st) ==
  CASE st.h.rule \in {"wigm", "wigm-prf", "wigm-prf-batch"} -> Step_wigm(st)
    [] st.h.rule = "scotland" -> Step_scotland(st)
    [] st.h.rule = "mpls" -> Step_mpls(st)
    [] st.h.rule \in {"cfer", "cfer-batch"} -> Step_cfer(st)
    [] st.h.rule \in {"meek", "warren", "meek-prf"} -> Step_meek(st)
    [] st.h.rule = "qpq" -> Step_qpq(st)

Counting == s.pc \notin {"setup", "done"}
(* one named action per rule so that -coverage reports them separately *)
CountWigm     == Counting /\ s.h.rule \in {"wigm", "wigm-prf", "wigm-prf-batch"} /\ s' = Step_wigm(s)
CountScotland == Counting /\ s.h.rule = "scotland" /\ s' = Step_scotland(s)
CountMpls     == Counting /\ s.h.rule = "mpls" /\ s' = Step_mpls(s)
CountCfer     == Counting /\ s.h.rule \in {"cfer", "cfer-batch"} /\ s' = Step_cfer(s)
CountMeek     == Counting /\ s.h.rule \in {"meek", "warren", "meek-prf"} /\ s' = Step_meek(s)
CountQpq      == Counting /\ s.h.rule = "qpq" /\ s' = Step_qpq(s)

Next == AddLine \/ StartCount \/ CountWigm \/ CountScotland \/ CountMpls \/ CountCfer \/ CountMeek \/ CountQpq
Spec == Init /\ [][Next]_vars
FairSpec == Spec /\ WF_vars(CountWigm \/ CountScotland \/ CountMpls \/ CountCfer \/ CountMeek \/ CountQpq)

(* the count as a function: run a header to completion (bounded by fuel, which a finished count never exhausts) *)
RECURSIVE RunFrom(_, _)
RunFrom(st, fuel) == IF st.pc = "done" \/ fuel = 0 THEN st ELSE RunFrom(TLCEval(Step(st)), fuel - 1)
Run(h) == RunFrom(InitState(h), 20000)

(* ---------- properties ---------- *)
Done == s.pc = "done"
AllFails(T) == {f \in UNION {FailOf(p, T) : p \in CHECK} : f[2] \notin KNOWNCL}
(* every property of Props.tla holds of every finished count *)
PropsHold == Done => (AllFails(TraceOf(s)) = {} \/ (PrintT("FAILS " \o ToJson([fails |-> AllFails(TraceOf(s)), h |-> s.h])) /\ FALSE))
(* DESIGN 4.5(ii): the known deviations of the code from the rule texts are outcome-neutral: *)
(* the specification with every DEV arm disabled (TextSpec) elects the same candidates       *)
DevNeutral == Done /\ s.devs # {} =>
                (ElectedS(Run([s.h EXCEPT !.devs = {}])) = ElectedS(s)
                 \/ (PrintT("DEVDIFF " \o ToJson([h |-> s.h, devs |-> s.devs])) /\ FALSE))
(* C01 liveness: every count terminates *)
Terminates == (s.pc # "setup") ~> Done
(* the count never takes more steps than a generous structural bound (guards RunFrom's fuel) *)
Bounded == s.pc # "setup" => Len(s.hist) <= 400

(* ---------- metamorphic lemmas at design level: the count as a function of the election ---------- *)
Meta(name, h2, map, diff) == diff = {} \/ (PrintT("METAFAIL " \o ToJson([lemma |-> name, h |-> s.h, h2 |-> h2, map |-> map, diff |-> diff])) /\ FALSE)
Ident == [c \in 1 .. NC |-> c]
(* C07(e): when no tie is logged the record does not depend on the tie-break order *)
TieIndependent == Done /\ ~HasTie(TraceOf(s)) =>
                    \A t2 \in AllPerms : LET h2 == [s.h EXCEPT !.tie = t2] IN Meta("C07e", h2, Ident, SameHistory(TraceOf(s), TraceOf(Run(h2)), TRUE))
(* C11(a): renumbering the candidates (names, tie order, ballots carried along) gives the same winners and final tallies *)
PermHeader(h, pi) ==
  [h EXCEPT !.wd = [c \in 1 .. h.nc |-> h.wd[CHOOSE x \in 1 .. h.nc : pi[x] = c]],
            !.und = [c \in 1 .. h.nc |-> h.und[CHOOSE x \in 1 .. h.nc : pi[x] = c]],
            !.tie = [c \in 1 .. h.nc |-> h.tie[CHOOSE x \in 1 .. h.nc : pi[x] = c]],
            !.lines = [j \in DOMAIN h.lines |-> [m |-> h.lines[j].m, r |-> [i \in DOMAIN h.lines[j].r |-> pi[h.lines[j].r[i]]]]]]
Neutral == Done => \A pi \in AllPerms : LET h2 == PermHeader(s.h, pi)
                                              T2 == TraceOf(Run(h2)) IN
                   Meta("C11a", h2, pi, IF "KNOWN_F26" \in KNOWNCL /\ (NearTieQuot(TraceOf(s)) \/ NearTieQuot(T2)) THEN {} ELSE FinalDiff(TraceOf(s), T2, pi))
(* C11(b): a withdrawn candidate is as good as absent: deleting the withdrawn candidates from the election (candidate list, *)
(* tie order; the ballots never rank them after Election.__init__'s filtering) gives the same record, name by name        *)
DropWithdrawn(h) ==
  LET keep == {c \in 1 .. h.nc : ~h.wd[c]}
      n2 == Cardinality(keep)
      map == [c \in 1 .. h.nc |-> IF h.wd[c] THEN 0 ELSE Cardinality({x \in keep : x <= c})]
      inv == [k \in 1 .. n2 |-> CHOOSE c \in keep : map[c] = k]
  IN [h2 |-> [h EXCEPT !.nc = n2, !.wd = [k \in 1 .. n2 |-> FALSE], !.und = [k \in 1 .. n2 |-> h.und[inv[k]]],
                       !.tie = [k \in 1 .. n2 |-> Cardinality({x \in keep : h.tie[x] <= h.tie[inv[k]]})],
                       !.lines = [j \in DOMAIN h.lines |-> [m |-> h.lines[j].m, r |-> [i \in DOMAIN h.lines[j].r |-> map[h.lines[j].r[i]]]]]],
      map |-> map]
WithdrawnAbsent == Done /\ (\E c \in 1 .. s.h.nc : s.h.wd[c]) =>
                     LET d == DropWithdrawn(s.h) IN Meta("C11b", d.h2, d.map, SameByName(TraceOf(s), TraceOf(Run(d.h2)), d.map))
(* C10: reversing the ballot lines and splitting every multiplier m > 1 into 1 + (m-1) changes nothing but the ballot table *)
RECURSIVE SplitLines(_, _)
SplitLines(L, j) == IF j = 0 THEN <<>>
                    ELSE (IF L[j].m > 1 THEN <<[m |-> 1, r |-> L[j].r], [m |-> L[j].m - 1, r |-> L[j].r]>> ELSE <<L[j]>>) \o SplitLines(L, j - 1)
PresentationIndependent ==
  Done => LET h2 == [s.h EXCEPT !.lines = SplitLines(s.h.lines, Len(s.h.lines))] IN
          Meta("C10", h2, Ident, SameHistory(TraceOf(s), TraceOf(Run(h2)), FALSE))

(* export of finished counts for the spec -> code replay (harness/replay.py) *)
Hash(st) == (Len(st.hist) * 7 + st.h.n * 13 + Sum([j \in 1 .. Len(st.h.lines) |-> Key(st.h.lines[j].r) * (j + 1) * st.h.lines[j].m]) + st.h.seats * 3)
Exported == IF Done /\ EXPORT > 0 /\ Hash(s) % EXPORT = 0
            THEN PrintT("CASE " \o ToJson([h |-> s.h, devs |-> s.devs, acts |-> s.hist]))
            ELSE TRUE
=============================================================================
