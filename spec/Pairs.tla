------------------------------- MODULE Pairs -------------------------------
(***************************************************************************)
(* Metamorphic properties as relations between TWO trace records:         *)
(* C07(e) tie-order independence, C10 presentation independence, C11      *)
(* neutrality / withdrawn = absent, C13(b) guard 0 = fixed, C13(c) quasi-  *)
(* exact = exact, C17 statutory immunity, C20 history independence.       *)
(* A pair record P = [id, rel, a, b, map, obs]; `map' sends a candidate id *)
(* of a to its id in b (0 = not present in b); `obs' carries the           *)
(* harness-side boolean observations (byte equality of renderings).        *)
(* Each relation returns the set of failing <<clause, index>> pairs.       *)
(***************************************************************************)
EXTENDS Props

IdMap(T) == [c \in 1 .. T.nc |-> c]
Mapped(map, q) == {map[q[i]] : i \in DOMAIN q} \ {0}
Present(map) == {c \in DOMAIN map : map[c] # 0}

(* one action of a equals the corresponding action of b, candidate by candidate through map *)
ActDiff(a, b, map, withbal) ==
  CASE a.tag # b.tag -> "tag"
    [] (a.subj # 0 /\ map[a.subj] # b.subj) \/ (a.subj = 0 /\ b.subj # 0) -> "subj"
    [] Mapped(map, a.subjs) # RangeSet(b.subjs) -> "subjs"
    [] Mapped(map, a.tied) # RangeSet(b.tied) -> "tied"
    [] a.round # b.round -> "round"
    [] a.quota # b.quota -> "quota"
    [] \E c \in Present(map) : a.st[c] # b.st[map[c]] -> "st"
    [] \E c \in Present(map) : a.pend[c] # b.pend[map[c]] -> "pend"
    [] \E c \in Present(map) : a.vote[c] # b.vote[map[c]] -> "vote"
    [] \E c \in Present(map) : a.kf[c] # b.kf[map[c]] -> "kf"
    [] \E c \in Present(map) : a.quot[c] # b.quot[map[c]] -> "quot"
    [] a.nt # b.nt -> "nt"
    [] a.residual # b.residual -> "residual"
    [] a.surplus # b.surplus -> "surplus"
    [] a.votes # b.votes -> "votes"
    [] withbal /\ a.bal # b.bal -> "bal"
    [] OTHER -> ""

HistDiff(A, B, map, withbal) ==
  (IF A.outcome # B.outcome THEN {<<"outcome", 0>>} ELSE {}) \cup
  (IF Len(A.acts) # Len(B.acts) THEN {<<"length", Min2(Len(A.acts), Len(B.acts)) + 1>>} ELSE {}) \cup
  {<<ActDiff(A.acts[k], B.acts[k], map, withbal), k>> : k \in {k \in 1 .. Min2(Len(A.acts), Len(B.acts)) : ActDiff(A.acts[k], B.acts[k], map, withbal) # ""}}

SameHistory(A, B, withbal) == HistDiff(A, B, IdMap(A), withbal)
SameByName(A, B, map) == HistDiff(A, B, map, FALSE)

(* winners by name and final tallies by name *)
FinalDiff(A, B, map) ==
  LET a == A.acts[Len(A.acts)]  b == B.acts[Len(B.acts)] IN
  (IF A.outcome # B.outcome THEN {<<"outcome", 0>>} ELSE {}) \cup
  (IF \E c \in Present(map) : a.st[c] # b.st[map[c]] THEN {<<"winners", Len(A.acts)>>} ELSE {}) \cup
  (IF \E c \in Present(map) : a.vote[c] # b.vote[map[c]] \/ a.quot[c] # b.quot[map[c]] THEN {<<"final_tallies", Len(A.acts)>>} ELSE {})

(* C13(c): same actions, subjects, statuses; tallies and quota within one unit of the declared precision. *)
(* B is the rational count observed at A's scale (floor), hence the extra scaled unit.                   *)
QuasiDiff(A, B, unit) ==
  (IF Len(A.acts) # Len(B.acts) THEN {<<"length", Min2(Len(A.acts), Len(B.acts)) + 1>>} ELSE {}) \cup
  {<<"step", k>> : k \in {k \in 1 .. Min2(Len(A.acts), Len(B.acts)) :
      LET a == A.acts[k]  b == B.acts[k] IN
      \/ a.tag # b.tag \/ a.subj # b.subj \/ a.st # b.st \/ a.pend # b.pend
      \/ Abs(a.quota - b.quota) > unit + 1
      \/ \E c \in 1 .. A.nc : Abs(a.vote[c] - b.vote[c]) > unit + 1}}

HasTie(A) == \E k \in 1 .. Len(A.acts) : A.acts[k].tag = "tie"
Obs(P, f) == IF P.obs[f] THEN {} ELSE {<<f, 0>>}

(* F26 (known finding): qpq takes Python's max()/min() of the quotients under the guarded (tolerant) comparison, which is not  *)
(* transitive: when two hopeful candidates' quotients differ by less than the tolerance without being equal, the extreme found -- *)
(* and with it `elect the highest' versus `exclude the lowest' -- depends on the order of the candidate list                     *)
NearTieQuot(T) == T.fam = "qpq" /\ \E k \in 1 .. Len(T.acts) : \E c, d \in 1 .. T.nc :
                    /\ c # d /\ T.acts[k].st[c] = "H" /\ T.acts[k].st[d] = "H"
                    /\ T.acts[k].quot[c] # T.acts[k].quot[d]
                    /\ T.acts[k].quot[c] - T.acts[k].quot[d] < T.geps /\ T.acts[k].quot[d] - T.acts[k].quot[c] < T.geps
PairFails(P) ==
  CASE P.rel = "C07e" -> IF HasTie(P.a) THEN {} ELSE SameHistory(P.a, P.b, TRUE) \cup Obs(P, "same_dump")
    [] P.rel = "C10"  -> SameHistory(P.a, P.b, FALSE) \cup Obs(P, "same_dump") \cup
                         (IF P.obs.same_report THEN {}
                          ELSE IF P.obs.only_stats_differ /\ P.a.kind = "guarded" THEN {<<"KNOWN_F12", 0>>}
                          ELSE {<<"same_report", 0>>})
    [] P.rel = "C11a" -> IF FinalDiff(P.a, P.b, P.map) # {} /\ (NearTieQuot(P.a) \/ NearTieQuot(P.b)) THEN {<<"KNOWN_F26", 0>>}
                         ELSE FinalDiff(P.a, P.b, P.map)
    [] P.rel = "C11b" -> SameByName(P.a, P.b, P.map)
    [] P.rel = "C13b" -> SameHistory(P.a, P.b, TRUE) \cup Obs(P, "same_dump")
    [] P.rel = "C13c" -> IF P.obs.quiet_stats THEN QuasiDiff(P.a, P.b, P.unit) ELSE {}
    [] P.rel = "C17"  -> SameHistory(P.a, P.b, TRUE) \cup Obs(P, "same_dump") \cup Obs(P, "same_report_body")
    [] P.rel = "C20"  -> SameHistory(P.a, P.b, TRUE) \cup Obs(P, "same_dump") \cup Obs(P, "same_report") \cup Obs(P, "same_json")
                         \cup Obs(P, "same_twice")
    [] OTHER -> {<<"unknown relation", 0>>}
Vacuous(P) == (P.rel = "C07e" /\ HasTie(P.a)) \/ (P.rel = "C13c" /\ ~P.obs.quiet_stats)
=============================================================================
