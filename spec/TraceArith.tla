----------------------------- MODULE TraceArith -----------------------------
(* Code -> spec: calls recorded from the real Fixed / Guarded / Rational classes judged by Num.tla. *)
EXTENDS Num, Json, IOUtils, TLCExt
CONSTANTS NW
Calls == ndJsonDeserialize(IOEnv.TRACE_FILE)
VARIABLE i
Init == i \in 1 .. NW
Next == i + NW <= Len(Calls) /\ i' = i + NW
(* only failing calls are printed; the number of calls judged is reported per worker chain at its end *)
Judged == IF i <= Len(Calls)
          THEN (IF NumFails(Calls[i]) = {} THEN TRUE ELSE PrintT(ToString(<<"ARITH", Calls[i].id, NumFails(Calls[i])>>)))
               /\ (IF i + NW > Len(Calls) THEN PrintT(ToString(<<"ARITHDONE", i>>)) ELSE TRUE)
          ELSE TRUE
=============================================================================
