------------------------------ MODULE CliArgs -------------------------------
(***************************************************************************)
(* C17 (command-line layer): droop/options.py Options.parse -- a list of   *)
(* name=value or bare words becomes the caller's option dictionary.        *)
(* Tokens and their features (split at '=', lower-cased value) come from   *)
(* the harness; TLC enumerates every argument list up to MAXLEN tokens and *)
(* exports each case for the replay into the real Options.parse.           *)
(***************************************************************************)
EXTENDS Integers, Sequences, FiniteSets, TLC, Json, IOUtils
CONSTANTS MAXLEN, EXPORT
Alpha == JsonDeserialize(IOEnv.ALPHA_FILE)       \* << [t, bare, key, val, low] >>
ArithNames == {"fixed", "integer", "rational", "guarded"}
RuleNames == {"wigm", "wigm-prf", "wigm-prf-batch", "cfer", "cfer-batch", "scotland", "mpls", "meek", "warren", "meek-prf", "qpq"}

Put(f, n, v) == (n :> v) @@ f
RECURSIVE Fold(_, _, _, _)
Fold(args, i, d, path) ==       \* returns [err, d]
  IF i > Len(args) THEN [err |-> "", d |-> d]
  ELSE LET w == Alpha[args[i]] IN
       IF w.bare
       THEN (IF w.t \in ArithNames THEN Fold(args, i + 1, Put(d, "arithmetic", w.t), path)
             ELSE IF w.t \in RuleNames THEN Fold(args, i + 1, Put(d, "rule", w.t), path)
             ELSE IF w.t \in {"report", "dump", "json"} THEN Fold(args, i + 1, Put(d, w.t, "true"), path)
             ELSE IF path # "" THEN [err |-> "UsageError", d |-> d]           \* multiple ballot files
             ELSE Fold(args, i + 1, Put(d, "path", w.t), w.t))
       ELSE Fold(args, i + 1,
                 Put(d, w.key, IF w.low \in {"false", "no"} THEN "false" ELSE IF w.low \in {"true", "yes"} THEN "true" ELSE w.val), path)
Parse(args) == Fold(args, 1, << >>, "")

VARIABLE a
Init == a \in UNION {[1 .. k -> 1 .. Len(Alpha)] : k \in 0 .. MAXLEN}
Next == UNCHANGED a
(* later arguments win; a forced/absent layer is none of parse()'s business *)
LastWins == LET r == Parse(a) IN
            r.err = "" => \A n \in DOMAIN r.d : \E i \in DOMAIN a :
                             LET w == Alpha[a[i]] IN
                             (~w.bare /\ w.key = n) \/ (w.bare /\ n \in {"arithmetic", "rule", "path", w.t})
Hash == Len(a) + (IF Len(a) > 0 THEN a[1] * 3 ELSE 0) + (IF Len(a) > 1 THEN a[2] * 7 ELSE 0) + (IF Len(a) > 2 THEN a[3] * 13 ELSE 0)
Exported == IF EXPORT > 0 /\ Hash % EXPORT = 0
            THEN PrintT("ARGCASE " \o ToJson([args |-> [i \in DOMAIN a |-> Alpha[a[i]].t], err |-> Parse(a).err, d |-> Parse(a).d]))
            ELSE TRUE
=============================================================================
