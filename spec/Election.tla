------------------------------ MODULE Election ------------------------------
(***************************************************************************)
(* Kernel of the count specification: the state record `s', the header    *)
(* `s.h' (the election as parsed: rule, arithmetic, candidates, ballots),  *)
(* fixed-point arithmetic on scaled integers, the Candidates helpers       *)
(* (byVote with ballot-order secondary key, byTieOrder, set iteration =    *)
(* candidate-id order), ballot transfer, and LogAction, which appends the  *)
(* observation record that Props.tla talks about.                          *)
(*                                                                         *)
(* One specification step = the code between two consecutive non-log      *)
(* logAction calls, ending at the second (DESIGN 4.2).                     *)
(*                                                                         *)
(* s = [ h, pc, round, st, pend, vote, kf, quot, tc, quota, nt, surplus,   *)
(*       residual, votes, va, tx, bal, q (work list), cur, flag, last,     *)
(*       devs, hist ]                                                      *)
(***************************************************************************)
EXTENDS Props

Pow10(k) == CASE k = 0 -> 1 [] k = 1 -> 10 [] k = 2 -> 100 [] k = 3 -> 1000 [] k = 4 -> 10000
              [] k = 5 -> 100000 [] k = 6 -> 1000000 [] k = 7 -> 10000000 [] k = 8 -> 100000000

(* ---------- arithmetic: values are integers in units of 1/S (S = h.S) ---------- *)
VMul(h, a, b)   == MulDivFloor(a, b, h.S)                      \* Fixed.__mul__   : floor(a*b)
VDiv(h, a, b)   == MulDivFloor(a, h.S, b)                      \* Fixed.__truediv__: floor(a/b)
VMulUp(h, a, b) == LET qr == MulDivQR(a, b, h.S) IN qr[1] + (IF qr[2] # 0 THEN 1 ELSE 0)
VDivUp(h, a, b) == LET qr == MulDivQR(a, h.S, b) IN qr[1] + (IF qr[2] # 0 THEN 1 ELSE 0)
VMulDiv(h, a, b, c) == MulDivFloor(a, b, c)                    \* Fixed.muldiv(round='down')
VInt(h, k)      == k * h.S
(* comparisons of the arithmetic in use (guarded: tolerance geps; fixed: geps = 1) *)
VLT(h, x, y) == y - x >= h.geps
VEQ(h, x, y) == Abs(x - y) < h.geps
VGE(h, x, y) == ~VLT(h, x, y)
VGT(h, x, y) == VLT(h, y, x)
VLE(h, x, y) == ~VLT(h, y, x)

(* ---------- candidates ---------- *)
CandS(s)    == 1 .. s.h.nc
HopefulS(s) == {c \in CandS(s) : s.st[c] = "H"}
ElectedS(s) == {c \in CandS(s) : s.st[c] = "E"}
PendingS(s) == {c \in CandS(s) : s.st[c] = "E" /\ s.pend[c]}
SeatsLeft(s) == s.h.seats - Cardinality(ElectedS(s))

(* IMPL: set order -- a Candidates set iterates in ascending candidate-id order *)
SetOrder(S) == AscSeq(S)
(* Candidates.byVote: ascending by (vote, ballot order); ballot order = candidate id *)
RECURSIVE ByVoteAsc(_, _)
ByVoteAsc(v, S) == IF S = {} THEN <<>>
                   ELSE LET x == CHOOSE y \in S : \A z \in S : v[y] < v[z] \/ (v[y] = v[z] /\ y <= z)
                        IN <<x>> \o ByVoteAsc(v, S \ {x})
Reverse(q) == [i \in 1 .. Len(q) |-> q[Len(q) + 1 - i]]
ByVoteDesc(v, S) == Reverse(ByVoteAsc(v, S))
(* Candidates.byTieOrder(...)[0] *)
FirstInTieOrder(s, S) == CHOOSE c \in S : \A d \in S : s.h.tie[c] <= s.h.tie[d]
SeqToSet(q) == {q[i] : i \in DOMAIN q}
SelectSeqBy(q, P(_)) == SelectSeq(q, P)

(* Python max()/min() over candidates in set order under the arithmetic's own `<' *)
PyMaxOver(s, m, S) == PyExt([geps |-> s.h.geps], m, S, "max")
PyMinOver(s, m, S) == PyExt([geps |-> s.h.geps], m, S, "min")

(* ---------- ballots ---------- *)
NLines(s) == Len(s.h.lines)
TopOf(s, j) == IF s.bal[j].ix < Len(s.h.lines[j].r) THEN s.h.lines[j].r[s.bal[j].ix + 1] ELSE 0
(* transfer(): advance to the next candidate in `cont' (hopeful), starting at the current position *)
RECURSIVE NextIx(_, _, _, _)
NextIx(s, j, ix, cont) == IF ix >= Len(s.h.lines[j].r) THEN ix
                          ELSE IF s.h.lines[j].r[ix + 1] \in cont THEN ix
                          ELSE NextIx(s, j, ix + 1, cont)
(* Move the ballots in J (with new weights w2) to their next continuing candidate and credit them. *)
(* Crediting is additive, so the order in which the code walks the ballots is immaterial.          *)
MoveBallots(s, J, w2, cont) ==
  LET nix  == [j \in 1 .. NLines(s) |-> IF j \in J THEN NextIx(s, j, s.bal[j].ix, cont) ELSE s.bal[j].ix]
      nbal == [j \in 1 .. NLines(s) |-> [ix |-> nix[j], w |-> IF j \in J THEN w2[j] ELSE s.bal[j].w]]
      val  == [j \in 1 .. NLines(s) |-> nbal[j].w * s.h.lines[j].m]
      dest == [j \in 1 .. NLines(s) |-> IF nix[j] < Len(s.h.lines[j].r) THEN s.h.lines[j].r[nix[j] + 1] ELSE 0]
      add  == [c \in CandS(s) |-> Sum([j \in 1 .. NLines(s) |-> IF j \in J /\ dest[j] = c THEN val[j] ELSE 0])]
      ex   == Sum([j \in 1 .. NLines(s) |-> IF j \in J /\ dest[j] = 0 THEN val[j] ELSE 0])
  IN [s EXCEPT !.bal = nbal, !.vote = [c \in CandS(s) |-> s.vote[c] + add[c]], !.nt = s.nt + ex]

(* ---------- the record ---------- *)
VotesOf(s) == Sum([c \in CandS(s) |-> IF s.st[c] = "W" THEN 0 ELSE s.vote[c]])
Zeros(s) == [c \in CandS(s) |-> 0]
ObsOf(s, tag, mc, subj, subjs, tied, tiekind) ==
  [tag |-> tag, mc |-> mc, subj |-> subj, subjs |-> subjs, tied |-> tied, tiekind |-> tiekind,
   round |-> s.round, st |-> s.st, pend |-> s.pend, vote |-> s.vote, kf |-> s.kf, quot |-> s.quot,
   quota |-> s.quota, votes |-> IF s.h.fam = "qpq" THEN s.votes ELSE VotesOf(s),
   nt |-> s.nt, residual |-> s.residual, surplus |-> s.surplus,
   bal |-> IF s.h.fam = "meek" THEN <<>> ELSE s.bal, va |-> s.va, tx |-> s.tx,
   logs |-> s.logs, iters |-> <<>>, named |-> TRUE]
(* E.logAction(tag, msg): snapshot, append *)
Log(s, tag, mc, subj) ==
  [s EXCEPT !.hist = Append(s.hist, ObsOf(s, tag, mc, subj, IF subj = 0 THEN <<>> ELSE <<subj>>, <<>>, "")), !.logs = <<>>]
LogTransfer(s, mc, subjs) ==
  [s EXCEPT !.hist = Append(s.hist, ObsOf(s, "transfer", mc, IF Len(subjs) = 1 THEN subjs[1] ELSE 0, subjs, <<>>, "")), !.logs = <<>>]
LogTie(s, mc, kind, tied, chosen) ==
  [s EXCEPT !.hist = Append(s.hist, ObsOf(s, "tie", mc, chosen, <<chosen>>, SetOrder(tied), kind)), !.logs = <<>>]
LastTag(s) == IF Len(s.hist) = 0 THEN "" ELSE s.hist[Len(s.hist)].tag

(* Candidate.elect / defeat / unpend *)
Elect(s, c, mc, pending) == Log([s EXCEPT !.st[c] = "E", !.pend[c] = pending], "elect", mc, c)
Defeat(s, c, mc) == Log([s EXCEPT !.st[c] = "D"], "defeat", mc, c)
NewRound(s) == Log([s EXCEPT !.round = s.round + 1], "round", "round", 0)

(* initial count state for a header h *)
InitState(h) ==
  LET C == 1 .. h.nc IN
  [h |-> h, pc |-> "start", round |-> 0,
   st |-> [c \in C |-> IF h.wd[c] THEN "W" ELSE "H"], pend |-> [c \in C |-> FALSE],
   vote |-> [c \in C |-> 0], kf |-> [c \in C |-> 0], quot |-> [c \in C |-> 0], tc |-> [c \in C |-> 0],
   quota |-> 0, nt |-> 0, surplus |-> 0, residual |-> 0, votes |-> 0, va |-> 0, tx |-> 0,
   bal |-> [j \in 1 .. Len(h.lines) |-> [ix |-> 0, w |-> h.S]],
   rounds |-> <<>>, q |-> <<>>, q2 |-> <<>>, cur |-> 0, flag |-> FALSE, last |-> 0, istat |-> "", logs |-> <<>>, its |-> <<>>, devs |-> {}, hist |-> <<>>]

(* first-preference tallies: `for b in E.ballots: b.topCand.vote += b.vote' *)
FirstPrefs(s) == [c \in CandS(s) |-> Sum([j \in 1 .. NLines(s) |-> IF s.h.lines[j].r[1] = c THEN s.h.lines[j].m * s.h.S ELSE 0])]

(* trace record of a finished (or running) count, in the vocabulary of Props.tla *)
TraceOf(s) ==
  [rule |-> s.h.rule, fam |-> s.h.fam, kind |-> s.h.kind, S |-> s.h.S, geps |-> s.h.geps, exactq |-> s.h.exactq,
   intq |-> s.h.intq, batch |-> s.h.batch, omega |-> s.h.omega, n |-> s.h.n, seats |-> s.h.seats, nc |-> s.h.nc,
   wd |-> s.h.wd, und |-> s.h.und, tie |-> s.h.tie, lines |-> s.h.lines, eq |-> <<>>, outcome |-> "ok",
   elected |-> SetOrder(ElectedS(s)), defeated |-> SetOrder({c \in CandS(s) : s.st[c] = "D"}), acts |-> s.hist]
=============================================================================
