------------------------------ MODULE Options ------------------------------
(***************************************************************************)
(* C17: the four option layers of droop/options.py (default < file < cmd   *)
(* < force), every rule's options() and every arithmetic class's          *)
(* initialize(), transcribed call by call.  TLC enumerates assignments of *)
(* option values to the cmd and file layers for every rule name, checks   *)
(* the statutory-immunity table and the unused/overridden definitions, and *)
(* exports each case for the spec -> code replay (harness/optreplay.py).   *)
(***************************************************************************)
EXTENDS Integers, Sequences, FiniteSets, TLC, Json

CONSTANTS RULESET,     \* rule names to explore
          MAXACTIVE,   \* at most this many option names are set (in either layer) in one case
          VARMAX,      \* the rule-source and pre-seeded-default variants are explored for cases with at most this many names set
          EXPORT       \* print every n-th case for the replay (0 = none)

NONE == "NONE"
Names == {"arithmetic", "precision", "guard", "display", "omega", "defeat_batch", "integer_quota"}
(* every option value is a string (TLC compares only like with like); numbers go through Num / Str *)
Dom(n) == CASE n = "arithmetic" -> {"fixed", "integer", "guarded", "rational", "bogus"}
            [] n = "precision" -> {"0", "2", "7"}
            [] n = "guard" -> {"0", "3"}
            [] n = "display" -> {"0", "1", "20"}
            [] n = "omega" -> {"1", "12"}
            [] n = "defeat_batch" -> {"none", "zero", "safe"}
            [] n = "integer_quota" -> {"true", "false"}
Digits == <<"0", "1", "2", "3", "4", "5", "6", "7", "8", "9", "10", "11", "12", "13", "14", "15", "16", "17", "18", "19", "20">>
Num(x) == (CHOOSE k \in DOMAIN Digits : Digits[k] = x) - 1
Str(k) == Digits[k + 1]

Statutory == {"scotland", "mpls", "wigm-prf", "wigm-prf-batch", "meek-prf", "cfer", "cfer-batch", "qpq"}
(* the arithmetic each statutory rule fixes: <<class, precision, guard, display>> (guard NONE unless guarded) *)
StatTable(r) == CASE r \in {"wigm-prf", "wigm-prf-batch", "mpls"} -> <<"fixed", "4", NONE, "4">>
                  [] r \in {"scotland", "cfer", "cfer-batch"} -> <<"fixed", "5", NONE, "5">>
                  [] r = "meek-prf" -> <<"fixed", "9", NONE, "9">>
                  [] r = "qpq" -> <<"guarded", "9", "9", "9">>

(* ---------- Options: layers are functions from a set of names ---------- *)
Has(f, n) == n \in DOMAIN f
Put(f, n, v) == (n :> v) @@ f
GetOpt(L, n) == IF Has(L.force, n) THEN L.force[n] ELSE IF Has(L.cmd, n) THEN L.cmd[n]
                ELSE IF Has(L.file, n) THEN L.file[n] ELSE IF Has(L.default, n) THEN L.default[n] ELSE NONE
(* Options.setopt(name, default, force, allowed): returns the new layers; L.err records a UsageError *)
SetOpt(L, n, d, force, allowed) ==
  LET L1 == [L EXCEPT !.default = IF Has(L.default, n) THEN @ ELSE Put(@, n, d)]         \* default.setdefault
      L2 == IF force THEN [L1 EXCEPT !.force = Put(@, n, d)] ELSE L1
      L3 == IF allowed # {} THEN [L2 EXCEPT !.allowed = Put(@, n, allowed)] ELSE L2
  IN IF allowed # {} /\ GetOpt(L3, n) \notin allowed /\ L3.err = "" THEN [L3 EXCEPT !.err = "UsageError"] ELSE L3
Stop(L) == L.err # ""

(* ---------- rule.options() ---------- *)
HalfOf(v) == Str(Num(v) \div 2)
RuleOptions(r, L0) ==
  CASE r = "wigm" ->
         LET L1 == SetOpt(L0, "arithmetic", "guarded", FALSE, {})
             L2 == IF GetOpt(L1, "arithmetic") = "guarded"
                   THEN LET a == SetOpt(L1, "precision", "18", FALSE, {}) IN SetOpt(a, "guard", HalfOf(GetOpt(a, "precision")), FALSE, {})
                   ELSE IF GetOpt(L1, "arithmetic") = "fixed" THEN SetOpt(L1, "precision", "9", FALSE, {}) ELSE L1
             L3 == SetOpt(L2, "integer_quota", "false", FALSE, {"true", "false"})
         IN IF Stop(L3) THEN L3 ELSE SetOpt(L3, "defeat_batch", "none", FALSE, {"none", "zero"})
    [] r \in {"meek", "warren"} ->
         LET L1 == SetOpt(L0, "arithmetic", "guarded", FALSE, {})
             a == GetOpt(L1, "arithmetic")
             L2 == IF a = "guarded"
                   THEN LET x == SetOpt(L1, "precision", "18", FALSE, {})
                            y == SetOpt(x, "guard", HalfOf(GetOpt(x, "precision")), FALSE, {})
                        IN SetOpt(y, "omega", HalfOf(GetOpt(x, "precision")), FALSE, {})
                   ELSE IF a = "fixed"
                   THEN LET x == SetOpt(L1, "precision", "9", FALSE, {}) IN SetOpt(x, "omega", Str((Num(GetOpt(x, "precision")) * 2) \div 3), FALSE, {})
                   ELSE IF a = "rational" THEN SetOpt(L1, "omega", "10", FALSE, {}) ELSE L1
         IN SetOpt(L2, "defeat_batch", "safe", FALSE, {"none", "safe"})
    [] r \in {"wigm-prf", "wigm-prf-batch", "mpls"} ->
         SetOpt(SetOpt(SetOpt(L0, "arithmetic", "fixed", TRUE, {}), "precision", "4", TRUE, {}), "display", "4", TRUE, {})
    [] r \in {"scotland", "cfer", "cfer-batch"} ->
         SetOpt(SetOpt(SetOpt(L0, "arithmetic", "fixed", TRUE, {}), "precision", "5", TRUE, {}), "display", "5", TRUE, {})
    [] r = "meek-prf" ->
         SetOpt(SetOpt(SetOpt(SetOpt(L0, "arithmetic", "fixed", TRUE, {}), "precision", "9", TRUE, {}), "display", "9", TRUE, {}), "omega", "6", TRUE, {})
    [] r = "qpq" ->
         SetOpt(SetOpt(SetOpt(SetOpt(L0, "arithmetic", "guarded", TRUE, {}), "precision", "9", TRUE, {}), "guard", "9", TRUE, {}), "display", "9", TRUE, {})

(* ---------- values.ArithmeticClass(options) and <class>.initialize(options) ---------- *)
InitArith(L0) ==      \* returns [L, cls, precision, guard, display]
  LET L1 == SetOpt(L0, "arithmetic", "guarded", FALSE, {})
      a == GetOpt(L1, "arithmetic")
  IN CASE a = "rational" ->
            LET L2 == IF GetOpt(L1, "display") = NONE THEN SetOpt(L1, "display", "12", FALSE, {}) ELSE L1 IN
            [L |-> L2, cls |-> "rational", precision |-> NONE, guard |-> NONE, display |-> GetOpt(L2, "display")]
       [] a \in {"fixed", "integer"} ->
            LET L2 == IF a = "integer" THEN SetOpt(L1, "precision", "0", TRUE, {}) ELSE L1
                p == GetOpt(L2, "precision")
                L3 == IF GetOpt(L2, "display") = NONE THEN SetOpt(L2, "display", p, FALSE, {}) ELSE L2
                d == GetOpt(L3, "display")
            IN [L |-> L3, cls |-> IF p = "0" THEN "integer" ELSE "fixed", precision |-> p, guard |-> NONE,
                display |-> IF Num(d) > Num(p) THEN p ELSE d]
       [] a = "guarded" ->
            LET p == GetOpt(L1, "precision")
                L2 == IF GetOpt(L1, "guard") = NONE THEN SetOpt(L1, "guard", p, FALSE, {}) ELSE L1
                g == GetOpt(L2, "guard")
                L3 == IF GetOpt(L2, "display") = NONE THEN SetOpt(L2, "display", p, FALSE, {}) ELSE L2
                d == GetOpt(L3, "display")
            IN [L |-> L3, cls |-> "guarded", precision |-> p, guard |-> g, display |-> IF Num(d) > Num(p) + Num(g) THEN Str(Num(p) + Num(g)) ELSE d]
       [] OTHER -> [L |-> [L1 EXCEPT !.err = "ArithmeticValuesError"], cls |-> NONE, precision |-> NONE, guard |-> NONE, display |-> NONE]

(* ---------- Election.__init__ up to the arithmetic class ---------- *)
(* where the rule name comes from: the caller ("cmd"), the ballot file's [droop rule=...] ("file"), or both (the caller's wins) *)
OtherRule(r) == IF r = "meek" THEN "scotland" ELSE "meek"
CmdLayer(k) == IF k.rsrc \in {"cmd", "both"} THEN ("rule" :> k.rule) @@ k.cmd ELSE k.cmd
FileLayer(k) == IF k.rsrc = "file" THEN ("rule" :> k.rule) @@ k.file
                ELSE IF k.rsrc = "both" THEN ("rule" :> OtherRule(k.rule)) @@ k.file ELSE k.file
(* `pre': defaults already registered on the Options object handed to Election (Options.setopt is public API) *)
Layers0(k) == [default |-> k.pre, file |-> FileLayer(k), cmd |-> CmdLayer(k), force |-> << >>, allowed |-> << >>, err |-> ""]
Outcome(k) ==
  LET L0 == Layers0(k)
      r == GetOpt(L0, "rule")               \* Election.__init__: options.getopt('rule')
      L1 == RuleOptions(r, L0)
  IN IF Stop(L1) THEN [err |-> L1.err, L |-> L1, cls |-> NONE, precision |-> NONE, guard |-> NONE, display |-> NONE, rule |-> r]
     ELSE LET A == InitArith(L1) IN [err |-> A.L.err, L |-> A.L, cls |-> A.cls, precision |-> A.precision, guard |-> A.guard, display |-> A.display, rule |-> r]

Effective(L) == [n \in DOMAIN L.default \cup DOMAIN L.file \cup DOMAIN L.cmd \cup DOMAIN L.force |-> GetOpt(L, n)]
Unused(L) == ((DOMAIN L.file \cup DOMAIN L.cmd) \ {"rule", "path"}) \ DOMAIN L.default
Overridden(L) == {n \in DOMAIN L.force : LET o == L.cmd @@ L.file IN Has(o, n) /\ o[n] # L.force[n]}

(* ---------- the space of cases ---------- *)
VARIABLE c     \* [rule, rsrc, pre, cmd, file]
Partial(S) == UNION {[T -> UNION {Dom(n) : n \in Names}] : T \in SUBSET S}
WellTyped(f) == \A n \in DOMAIN f : f[n] \in Dom(n)
Presets == {<< >>, [precision |-> "7", display |-> "1"], [arithmetic |-> "rational", omega |-> "1", guard |-> "0"],
            [arithmetic |-> "fixed", precision |-> "2", defeat_batch |-> "zero"]}
Init == \E r \in RULESET, A \in SUBSET Names :
          /\ Cardinality(A) <= MAXACTIVE
          /\ \E cmd \in Partial(A), file \in Partial(A),
                rsrc \in (IF Cardinality(A) <= VARMAX THEN {"cmd", "file", "both"} ELSE {"cmd"}),
                pre \in (IF Cardinality(A) <= VARMAX THEN Presets ELSE {<< >>}) :
               /\ WellTyped(cmd) /\ WellTyped(file)
               /\ DOMAIN cmd \cup DOMAIN file = A
               /\ c = [rule |-> r, rsrc |-> rsrc, pre |-> pre, cmd |-> cmd, file |-> file]
Next == UNCHANGED c
O == Outcome(c)

(* the caller's rule name beats the file's; a rule name in the file alone selects the rule *)
RuleChosen == O.rule = c.rule
(* statutory rules cannot be reconfigured: whatever is supplied from either layer *)
StatutoryImmune == c.rule \in Statutory =>
                     /\ O.err = ""
                     /\ <<O.cls, O.precision, O.guard, O.display>> = StatTable(c.rule)
                     /\ (c.rule = "meek-prf" => GetOpt(O.L, "omega") = "6")
(* precedence: force, then cmd, then file, then default -- for every option name known after construction *)
Precedence == O.err = "" =>
                \A n \in DOMAIN Effective(O.L) :
                   Effective(O.L)[n] = (IF Has(O.L.force, n) THEN O.L.force[n] ELSE IF Has(O.L.cmd, n) THEN O.L.cmd[n]
                                        ELSE IF Has(O.L.file, n) THEN O.L.file[n] ELSE O.L.default[n])
(* the report names unused and overridden options *)
Reported == O.err = "" =>
              /\ Overridden(O.L) \subseteq DOMAIN O.L.force
              /\ (c.rule \in Statutory => \A n \in (DOMAIN c.cmd \cup DOMAIN c.file) \cap DOMAIN O.L.force :
                                             (n \in Overridden(O.L)) = ((c.cmd @@ c.file)[n] # O.L.force[n]))
              /\ Unused(O.L) \cap DOMAIN O.L.default = {}
              /\ "rule" \notin Unused(O.L)

Variant == c.rsrc # "cmd" \/ c.pre # << >>
Hash == Cardinality(DOMAIN c.cmd) * 7 + Cardinality(DOMAIN c.file) * 3 + Len(c.rule)
        + Cardinality({n \in DOMAIN c.cmd : c.cmd[n] \in {"0", "fixed", "true", "none", "1"}}) * 5
        + Cardinality({n \in DOMAIN c.file : c.file[n] \in {"2", "guarded", "false", "safe", "12", "3"}}) * 11
Exported == IF EXPORT > 0 /\ (IF Variant THEN Hash % 2 = 0 \/ EXPORT = 1 ELSE Hash % EXPORT = 0)
            THEN PrintT("OPTCASE " \o ToJson([rule |-> c.rule, pre |-> c.pre, cmd |-> CmdLayer(c), file |-> FileLayer(c), err |-> O.err,
                                             cls |-> O.cls, precision |-> O.precision, guard |-> O.guard, display |-> O.display,
                                             default |-> O.L.default, force |-> O.L.force, effective |-> Effective(O.L),
                                             unused |-> Unused(O.L), overridden |-> Overridden(O.L)]))
            ELSE TRUE
=============================================================================
