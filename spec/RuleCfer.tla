------------------------------ MODULE RuleCfer ------------------------------
(***************************************************************************)
(* cfer, cfer-batch: droop/rules/cfer.py.  Clause ids: CfER draft          *)
(* Elections Code section 10059 as quoted in the module docstring.         *)
(***************************************************************************)
EXTENDS Election

CF_Quota(h) == VDiv(h, VInt(h, h.n), VInt(h, h.seats + 1)) + 1            \* threshold: quotient to 5 places + 0.00001
CF_ElectList(s) == SelectSeq(ByVoteDesc(s.vote, HopefulS(s)), LAMBDA c : s.vote[c] >= s.quota)

(* 10059(k): the largest defeat set (cfer.batchDefeat) *)
RECURSIVE CF_Scan(_, _, _, _, _, _)
CF_Scan(s, cands, t, best, sur, nE) ==        \* t = size of the trial set (1-based); best = size of the largest accepted set
  IF t > Len(cands) - 1 THEN best
  ELSE IF (Len(cands) - t) + nE < s.h.seats THEN best                                  \* (1)
  ELSE LET vds == Sum([i \in 1 .. t |-> s.vote[cands[i]]])
           top == s.vote[cands[Len(cands)]]
       IN IF vds + sur >= s.vote[cands[t + 1]] THEN CF_Scan(s, cands, t + 1, best, sur, nE)     \* (2)
          ELSE IF \/ nE + 1 = s.h.seats                                                \* (3)(A)
                  \/ Len(cands) - t + nE = s.h.seats                                   \* (3)(B)
                  \/ vds + sur < s.quota - top                                         \* (3)(C)
                  \/ (sur = 0 /\ vds - s.vote[cands[t]] < s.quota - top)               \* (3)(D)
               THEN CF_Scan(s, cands, t + 1, t, sur, nE)
               ELSE CF_Scan(s, cands, t + 1, best, sur, nE)
CF_BatchDefeat(s) ==
  LET sur == Sum([c \in CandS(s) |-> IF c \in PendingS(s) THEN s.vote[c] - s.quota ELSE 0])
      cands == ByVoteAsc(s.vote, HopefulS(s))
      k == CF_Scan(s, cands, 1, 0, sur, Cardinality(ElectedS(s)))
  IN SubSeq(cands, 1, k)

CF_End(s) == [Log(s, "end", "end", 0) EXCEPT !.pc = "done"]
CF_Unpend(s, q) == [Log([s EXCEPT !.pend[q[1]] = FALSE], "unpend", "unpend", q[1]) EXCEPT !.pc = "surplus", !.cur = q[1], !.q = Tail(q)]

CF_AfterElect(s) ==
  IF Cardinality(ElectedS(s)) >= s.h.seats
  THEN LET s1 == [s EXCEPT !.pend = [c \in CandS(s) |-> FALSE], !.pc = "defremaining"] IN
       IF HopefulS(s1) # {} THEN Defeat(s1, SetOrder(HopefulS(s1))[1], "defeat_remaining") ELSE CF_End(s1)
  ELSE LET defeats == IF s.h.rule = "cfer-batch" THEN CF_BatchDefeat(s) ELSE <<>> IN
       IF defeats # <<>>
       THEN LET q == SetOrder(SeqToSet(defeats)) IN
            [Defeat(s, q[1], "defeat_batch") EXCEPT !.pc = "batchdefeat", !.q = Tail(q), !.q2 = defeats]
       ELSE IF PendingS(s) # {} THEN CF_Unpend(s, SetOrder(PendingS(s)))             \* 10059(g): all surpluses of the round
       ELSE LET low == PyMinOver(s, s.vote, HopefulS(s))                              \* 10059(h)
                tied == {c \in HopefulS(s) : s.vote[c] = low}
                lc == FirstInTieOrder(s, tied)
            IN IF Cardinality(tied) > 1 /\ ~s.flag
               THEN [LogTie(s, "tie", "defeat", tied, lc) EXCEPT !.pc = "afterelect", !.flag = TRUE]
               ELSE [Defeat(s, lc, "defeat") EXCEPT !.pc = "afterdefeat", !.q2 = <<lc>>, !.flag = FALSE]

CF_ElectStep(s) ==
  LET L == CF_ElectList(s) IN
  IF L # <<>>
  THEN LET c == L[1]  pending == s.vote[c] > s.quota IN
       [Elect(s, c, IF pending THEN "elect_pending" ELSE "elect", pending) EXCEPT !.pc = "elect"]
  ELSE CF_AfterElect(s)

CF_FinalElect(s) ==       \* `Elect pending' then `Elect remaining' when the continuing candidates just fill the seats
  IF PendingS(s) # {} THEN Elect(s, SetOrder(PendingS(s))[1], "elect_pending_final", FALSE)
  ELSE IF HopefulS(s) # {} THEN Elect(s, SetOrder(HopefulS(s))[1], "elect_remaining", FALSE)
  ELSE CF_End(s)

CF_AfterDefeat(s) ==
  IF Cardinality(HopefulS(s)) + Cardinality(ElectedS(s)) <= s.h.seats
  THEN CF_FinalElect([s EXCEPT !.pc = "finalelect"])
  ELSE LET D == SeqToSet(s.q2)
           J == {j \in 1 .. NLines(s) : TopOf(s, j) \in D}
           s1 == MoveBallots(s, J, [j \in 1 .. NLines(s) |-> s.bal[j].w], HopefulS(s))
           s2 == [s1 EXCEPT !.vote = [c \in CandS(s) |-> IF c \in D THEN 0 ELSE s1.vote[c]]]
       IN [LogTransfer(s2, "transfer_defeated", s.q2) EXCEPT !.pc = "round", !.q2 = <<>>]

Step_cfer(s) ==
  CASE s.pc = "start" ->
         LET s1 == [s EXCEPT !.quota = CF_Quota(s.h), !.vote = FirstPrefs(s)] IN
         [Log(s1, "begin", "begin", 0) EXCEPT !.pc = "round"]
    [] s.pc = "round" -> [NewRound(s) EXCEPT !.pc = "r1"]
    [] s.pc = "r1" ->
         IF s.round = 1 /\ Cardinality(HopefulS(s)) <= s.h.seats
         THEN (IF HopefulS(s) # {} THEN Elect(s, SetOrder(HopefulS(s))[1], "elect_all", FALSE) ELSE CF_End(s))
         ELSE CF_ElectStep(s)
    [] s.pc = "elect" -> CF_ElectStep(s)
    [] s.pc = "afterelect" -> CF_AfterElect(s)
    [] s.pc = "defremaining" ->
         IF HopefulS(s) # {} THEN Defeat(s, SetOrder(HopefulS(s))[1], "defeat_remaining") ELSE CF_End(s)
    [] s.pc = "batchdefeat" ->
         IF s.q # <<>> THEN [Defeat(s, s.q[1], "defeat_batch") EXCEPT !.q = Tail(s.q)] ELSE CF_AfterDefeat(s)
    [] s.pc = "afterdefeat" -> CF_AfterDefeat(s)
    [] s.pc = "finalelect" -> CF_FinalElect(s)
    [] s.pc = "surplus" ->                                                             \* 10059(g): transfer value truncated to 5 places
         LET c == s.cur
             sur == s.vote[c] - s.quota
             J == {j \in 1 .. NLines(s) : TopOf(s, j) = c}
             w2 == [j \in 1 .. NLines(s) |-> IF j \in J THEN VDiv(s.h, VMul(s.h, s.bal[j].w, sur), s.vote[c]) ELSE s.bal[j].w]
             s1 == MoveBallots(s, J, w2, HopefulS(s))
             s2 == [s1 EXCEPT !.vote[c] = s.quota]
         IN [LogTransfer(s2, "transfer_surplus", <<c>>) EXCEPT !.pc = IF s.q # <<>> THEN "unpendnext" ELSE "round"]
    [] s.pc = "unpendnext" -> CF_Unpend(s, s.q)
=============================================================================
