-------------------------------- MODULE Blt --------------------------------
(***************************************************************************)
(* C15 / C16: the ballot-file reader (droop/profile.py) over WORDS.        *)
(* The harness splits a text into lines and whitespace-separated words     *)
(* (Python splitlines/split) and attaches to each word the features the    *)
(* code tests (DESIGN 9: the character level is an input to the model):    *)
(*   w = [t, line, q0, q1, c0, c1, h, dig, sdig, val, br0, br1, p0, p1,    *)
(*        isz, lb, lbrb, rb, rbdig, rbval, lq, rq, lrq, lp, rp, lrp,       *)
(*        parts = << [t, dig, val] >>]                                     *)
(* Tokenize = __bltBlob (quote / nested-comment / # state machine);        *)
(* Parse    = _bltParse + BallotLine + __validate as a phase machine.      *)
(* Outcomes: [out |-> "ok", prof |-> ...], [out |-> "err"] (the package's  *)
(* ElectionProfileError) or [out |-> "crash", why] where the transcribed   *)
(* code would raise anything else.  FIXED = ids of repaired defects.       *)
(***************************************************************************)
EXTENDS Integers, Sequences, FiniteSets, TLC

CONSTANT FIXED      \* subset of {"F4", "F5", "F6", "F7", "F17"}: defects repaired in the code (known_findings.json)

(* ---------- tokenizer: __bltBlob ---------- *)
RECURSIVE Tok(_, _, _, _, _, _)
Tok(W, i, inC, inQ, skip, acc) ==
  IF i > Len(W) THEN acc
  ELSE LET w == W[i] IN
       IF w.line = skip THEN Tok(W, i + 1, inC, inQ, skip, acc)
       ELSE LET q1 == IF inC = 0 /\ w.q0 THEN TRUE ELSE inQ IN
            IF q1 /\ w.q1 THEN Tok(W, i + 1, inC, FALSE, skip, Append(acc, w))
            ELSE LET c1 == IF ~q1 /\ w.c0 THEN inC + 1 ELSE inC IN
                 IF c1 > 0 THEN Tok(W, i + 1, IF w.c1 THEN c1 - 1 ELSE c1, q1, skip, acc)
                 ELSE IF ~q1 /\ w.h THEN Tok(W, i + 1, c1, q1, w.line, acc)
                 ELSE Tok(W, i + 1, c1, q1, skip, Append(acc, w))
Tokenize(W) == Tok(W, 1, 0, FALSE, 0, <<>>)

(* ---------- helpers ---------- *)
Err(why) == [out |-> "err", why |-> why]
Crash(why) == [out |-> "crash", why |-> why]
RangeOf(q) == {q[i] : i \in DOMAIN q}
RECURSIVE JoinSp(_, _)
JoinSp(q, i) == IF i > Len(q) THEN "" ELSE IF i = Len(q) THEN q[i] ELSE q[i] \o " " \o JoinSp(q, i + 1)
RECURSIVE DropEmptyEnds(_)
DropEmptyEnds(q) == IF q = <<>> THEN q ELSE IF q[1] = "" THEN DropEmptyEnds(Tail(q))
                    ELSE IF q[Len(q)] = "" THEN DropEmptyEnds(SubSeq(q, 1, Len(q) - 1)) ELSE q

(* getCid: digits -> range check; otherwise nickname lookup.  0 = bad *)
GetCid(p, isdig, val, txt) ==
  IF isdig THEN (IF 0 < val /\ val <= p.nCand THEN val ELSE 0)
  ELSE IF txt \in DOMAIN p.nickCid THEN p.nickCid[txt] ELSE 0

(* a quoted string that may span several tokens: returns <<ok, next index, pieces>>; ok = FALSE on end of file *)
RECURSIVE QuotedFrom(_, _, _)
QuotedFrom(T, i, acc) ==       \* T[i] is the first token (already known to start with a quote)
  IF i > Len(T) THEN <<FALSE, i, acc>>
  ELSE IF (IF acc = <<>> THEN T[i].q1 ELSE T[i].q1) THEN <<TRUE, i + 1, Append(acc, T[i])>>
  ELSE QuotedFrom(T, i + 1, Append(acc, T[i]))
(* str.strip('"') of the joined tokens *)
StripQuotes(ws) == IF Len(ws) = 1 THEN <<ws[1].lrq>>
                   ELSE <<ws[1].lq>> \o [k \in 1 .. Len(ws) - 2 |-> ws[k + 1].t] \o <<ws[Len(ws)].rq>>
NameOf(ws) == JoinSp(StripQuotes(ws), 1)
TitleOf(ws) == JoinSp(DropEmptyEnds(StripQuotes(ws)), 1)          \* .strip('"').strip(' ')

EmptyProf == [nCand |-> 0, nSeats |-> 0, withdrawn |-> {}, undeclared |-> {}, tie |-> <<>>, hasTie |-> FALSE,
              nickCid |-> <<>>, nicks |-> <<>>, droop |-> <<>>, lines |-> <<>>, eqlines |-> <<>>, nBallots |-> 0,
              names |-> <<>>, title |-> "", source |-> "", comment |-> "", hasSource |-> FALSE, hasComment |-> FALSE,
              nIds |-> 0, ids |-> {}, nLinesRead |-> 0]

(* ---------- options ---------- *)
(* collect the option list: tokens up to the one ending with ']' *)
RECURSIVE OptList(_, _, _)
OptList(T, i, acc) ==
  IF i > Len(T) THEN <<FALSE, i, acc>>
  ELSE LET w == T[i]
           acc2 == IF w.t # "]" THEN Append(acc, w) ELSE acc
       IN IF w.br1 THEN <<TRUE, i + 1, acc2>> ELSE OptList(T, i + 1, acc2)

RECURSIVE TieFold(_, _, _, _)
TieFold(p, L, k, tie) ==       \* returns <<ok, tie>>; tie: function cid -> order, later entries override
  IF k > Len(L) THEN <<TRUE, tie>>
  ELSE LET cid == GetCid(p, L[k].rbdig, L[k].rbval, L[k].rb) IN
       IF cid = 0 THEN <<FALSE, tie>> ELSE TieFold(p, L, k + 1, [c \in DOMAIN tie \cup {cid} |-> IF c = cid THEN k ELSE tie[c]])
RECURSIVE SetFold(_, _, _, _)
SetFold(p, L, k, S) ==         \* [withdrawn ...] / [undeclared ...]: duplicates are errors
  IF k > Len(L) THEN S
  ELSE LET cid == GetCid(p, L[k].rbdig, L[k].rbval, L[k].rb) IN
       IF cid = 0 \/ cid \in S THEN {-1} ELSE SetFold(p, L, k + 1, S \cup {cid})

ApplyOption(p, w, L) ==        \* returns the new profile or an Err record
  LET name == IF w.br1 THEN w.lbrb ELSE w.lb IN
  CASE name = "tie" ->
         LET tf == TieFold(p, L, 1, << >>) IN
         IF ~tf[1] THEN Err("bad candidate in [tie]")
         ELSE IF Cardinality(DOMAIN tf[2]) # p.nCand THEN Err("[tie] must list each candidate")
         ELSE [p EXCEPT !.tie = tf[2], !.hasTie = TRUE]
    [] name = "nick" ->
         IF Len(L) # p.nCand THEN Err("[nick] length")
         ELSE IF Cardinality({L[k].rb : k \in DOMAIN L}) # Len(L) THEN Err("duplicate nickname")
         ELSE [p EXCEPT !.nickCid = [x \in {L[k].rb : k \in DOMAIN L} |-> CHOOSE k \in DOMAIN L : L[k].rb = x],
                        !.nicks = [k \in DOMAIN L |-> L[k].rb]]
    [] name = "droop" -> [p EXCEPT !.droop = @ \o [k \in DOMAIN L |-> L[k].rb]]
    [] name = "withdrawn" ->
         LET S == SetFold(p, L, 1, p.withdrawn) IN IF S = {-1} THEN Err("bad [withdrawn]") ELSE [p EXCEPT !.withdrawn = S]
    [] name = "undeclared" ->
         LET S == SetFold(p, L, 1, p.undeclared) IN IF S = {-1} THEN Err("bad [undeclared]") ELSE [p EXCEPT !.undeclared = S]
    [] OTHER -> Err("unknown option")

(* ---------- one ballot line ---------- *)
RECURSIVE RankFold(_, _, _, _)
RankFold(p, parts, k, acc) ==      \* one rank: the '='-separated parts -> list of cids, or <<0>> if a part is bad
  IF k > Len(parts) THEN acc
  ELSE LET cid == GetCid(p, parts[k].dig, parts[k].val, parts[k].t) IN
       IF cid = 0 THEN <<0>> ELSE RankFold(p, parts, k + 1, Append(acc, cid))
(* read ranks up to the token '0': <<status, next index, ranking>>, status in "ok","eof","bad" *)
RECURSIVE ReadRanks(_, _, _, _)
ReadRanks(p, T, i, acc) ==
  IF i > Len(T) THEN <<"eof", i, acc>>
  ELSE IF T[i].isz THEN <<"ok", i + 1, acc>>
  ELSE LET r == RankFold(p, T[i].parts, 1, <<>>) IN
       IF r = <<0>> THEN <<"bad", i, acc>> ELSE ReadRanks(p, T, i + 1, Append(acc, r))
(* BallotLine.__init__: strip withdrawn candidates.  Unrepaired code (F7): `for cid in set(rank): rank.remove(cid)' *)
(* removes only the first copy of a repeated withdrawn candidate.                                                 *)
RECURSIVE RemoveFirst(_, _)
RemoveFirst(q, x) == IF q = <<>> THEN q ELSE IF q[1] = x THEN Tail(q) ELSE <<q[1]>> \o RemoveFirst(Tail(q), x)
RECURSIVE RemoveEachOnce(_, _)
RemoveEachOnce(q, S) == IF S = {} THEN q ELSE LET x == CHOOSE y \in S : TRUE IN RemoveEachOnce(RemoveFirst(q, x), S \ {x})
StripRank(p, rank) == IF "F7" \in FIXED THEN SelectSeq(rank, LAMBDA c : c \notin p.withdrawn)
                      ELSE RemoveEachOnce(rank, RangeOf(rank) \cap p.withdrawn)
AddBallot(p, m, ranking) ==
  LET rs == [k \in DOMAIN ranking |-> StripRank(p, ranking[k])]
      kept == SelectSeq(rs, LAMBDA r : r # <<>>)
      eq == \E k \in DOMAIN rs : Len(rs[k]) > 1
  IN IF kept = <<>> THEN p
     ELSE IF eq THEN [p EXCEPT !.nBallots = @ + m, !.eqlines = Append(@, [m |-> m, r |-> kept])]
     ELSE [p EXCEPT !.nBallots = @ + m, !.lines = Append(@, [m |-> m, r |-> [k \in DOMAIN kept |-> kept[k][1]]])]

(* ballot id: tokens up to the one ending with ')' *)
RECURSIVE IdFrom(_, _, _)
IdFrom(T, i, acc) ==
  IF i > Len(T) THEN <<FALSE, i, acc>>
  ELSE IF T[i].p1 THEN <<TRUE, i + 1, Append(acc, T[i])>> ELSE IdFrom(T, i + 1, Append(acc, T[i]))
IdOf(ws) == DropEmptyEnds(IF Len(ws) = 1 THEN <<ws[1].lrp>>
                          ELSE <<ws[1].lp>> \o [k \in 1 .. Len(ws) - 2 |-> ws[k + 1].t] \o <<ws[Len(ws)].rp>>)

(* ---------- validation ---------- *)
NoDup(q) == Cardinality(RangeOf(q)) = Len(q)
RECURSIVE Flatten(_)
Flatten(rr) == IF rr = <<>> THEN <<>> ELSE rr[1] \o Flatten(Tail(rr))
Eligible(p) == (1 .. p.nCand) \ p.withdrawn
Validate(p) ==
  IF p.nSeats = 0 \/ p.nSeats > Cardinality(Eligible(p)) THEN Err("too few candidates")
  ELSE IF p.nBallots < Cardinality(Eligible(p)) THEN Err("too few ballots")
  ELSE IF \E j \in DOMAIN p.lines : ~NoDup(p.lines[j].r) THEN Err("duplicate candidate")
  ELSE IF \E j \in DOMAIN p.eqlines : ~NoDup(Flatten(p.eqlines[j].r)) THEN Err("duplicate candidate")
  ELSE [out |-> "ok", prof |-> p]

(* ---------- the parser: phases of _bltParse ---------- *)
RECURSIVE PRun(_, _, _, _)
PRun(T, ph, i, p) ==
  LET eof == i > Len(T) IN
  CASE ph = "ncand" ->
         IF eof THEN Err("eof") ELSE IF ~T[i].dig THEN Err("expected number of candidates")
         ELSE PRun(T, "nseats", i + 1, [p EXCEPT !.nCand = T[i].val])
    [] ph = "nseats" ->
         IF eof THEN Err("eof") ELSE IF ~T[i].dig THEN Err("expected number of seats")
         ELSE PRun(T, "opts", i + 1, [p EXCEPT !.nSeats = T[i].val])
    [] ph = "opts" ->
         IF eof THEN Err("eof")
         ELSE LET w == T[i] IN
              IF w.br0
              THEN LET ol == IF w.br1 THEN <<TRUE, i + 1, <<>> >> ELSE OptList(T, i + 1, <<>>) IN
                   IF ~ol[1] THEN Err("eof in option")
                   ELSE LET p2 == ApplyOption(p, w, ol[3]) IN
                        IF "out" \in DOMAIN p2 THEN p2 ELSE PRun(T, "opts", ol[2], TLCEval(p2))
              ELSE IF w.p0 THEN PRun(T, "ballots", i, p)
              ELSE IF w.sdig
              THEN (IF -w.val <= 0 THEN PRun(T, "ballots", i, p)
                    ELSE IF -w.val \in p.withdrawn THEN Err("duplicate withdrawn")
                    ELSE IF "F5" \in FIXED /\ -w.val > p.nCand THEN Err("withdrawn candidate out of range")
                    ELSE PRun(T, "opts", i + 1, [p EXCEPT !.withdrawn = @ \cup {-w.val}]))
              ELSE Err("expected decimal number")
    [] ph = "ballots" ->
         IF eof THEN Err("eof")
         ELSE LET w == T[i] IN
              IF w.p0
              THEN LET idr == IdFrom(T, i, <<>>) IN
                   IF ~idr[1] THEN Err("eof in ballot id")
                   ELSE IF IdOf(idr[3]) \in p.ids THEN Err("duplicate ballot ID")
                   ELSE PRun(T, "ranking", idr[2], [p EXCEPT !.ids = @ \cup {IdOf(idr[3])}, !.nIds = @ + 1, !.nLinesRead = @ + 1] @@ [m |-> 1])
              ELSE IF w.dig
              THEN (IF w.val = 0 THEN PRun(T, "afterballots", i + 1, p)
                    ELSE PRun(T, "ranking", i + 1, [p EXCEPT !.nLinesRead = @ + 1] @@ [m |-> w.val]))
              ELSE Err("expected decimal number")
    [] ph = "ranking" ->
         LET rr == ReadRanks(p, T, i, <<>>)
             p0 == [k \in DOMAIN p \ {"m"} |-> p[k]]
         IN IF rr[1] = "eof" THEN Err("eof") ELSE IF rr[1] = "bad" THEN Err("bad candidate ID")
            ELSE IF rr[2] > Len(T) THEN Err("eof")                                    \* `tok = next(blt)' for the next multiplier
            ELSE PRun(T, "ballots", rr[2], TLCEval(IF rr[3] # <<>> THEN AddBallot(p0, p.m, rr[3]) ELSE p0))
    [] ph = "afterballots" ->
         LET n == IF "F17" \in FIXED THEN p.nLinesRead ELSE Len(p.lines) IN
         IF p.nIds > 0 /\ p.nIds # n THEN Err("number of ballot IDs does not match")
         ELSE PRun(T, "names", i, p)
    [] ph = "names" ->
         IF Len(p.names) = p.nCand THEN PRun(T, "title", i, p)
         ELSE IF eof THEN (IF Len(p.names) = 0 /\ "F4" \notin FIXED THEN Crash("UnboundLocalError: name") ELSE Err("eof at candidate name"))
         ELSE IF ~T[i].q0 THEN Err("expected quoted string")
         ELSE LET qr == QuotedFrom(T, i, <<>>) IN
              IF ~qr[1] THEN Err("eof") ELSE PRun(T, "names", qr[2], [p EXCEPT !.names = Append(@, NameOf(qr[3]))])
    [] ph = "title" ->
         IF eof THEN Err("eof") ELSE IF ~T[i].q0 THEN Err("expected quoted title")
         ELSE LET qr == QuotedFrom(T, i, <<>>) IN
              IF ~qr[1] THEN Err("eof in title") ELSE PRun(T, "source", qr[2], [p EXCEPT !.title = TitleOf(qr[3])])
    [] ph = "source" ->
         IF eof \/ ~T[i].q0 THEN PRun(T, "validate", i, p)
         ELSE LET qr == QuotedFrom(T, i, <<>>) IN
              IF ~qr[1] THEN Err("eof in source") ELSE PRun(T, "comment", qr[2], [p EXCEPT !.source = TitleOf(qr[3]), !.hasSource = TRUE])
    [] ph = "comment" ->
         IF eof \/ ~T[i].q0 THEN PRun(T, "validate", i, p)
         ELSE LET qr == QuotedFrom(T, i, <<>>) IN
              IF ~qr[1] THEN Err("eof in comment") ELSE PRun(T, "validate", qr[2], [p EXCEPT !.comment = TitleOf(qr[3]), !.hasComment = TRUE])
    [] ph = "validate" ->
         (* array('B') holds 0..255: with exactly 256 candidates a ballot naming candidate 256 overflows (F6) *)
         IF "F6" \notin FIXED /\ p.nCand = 256 /\ \E j \in DOMAIN p.lines : 256 \in RangeOf(p.lines[j].r) THEN Crash("OverflowError")
         ELSE Validate(p)

Parse(W) == IF Len(W) = 0 THEN Err("no profile data") ELSE PRun(Tokenize(W), "ncand", 1, EmptyProf)

(* ---------- what a valid profile is (C15 / C16) ---------- *)
ValidProfile(p) ==
  /\ p.nSeats >= 1 /\ p.nSeats <= Cardinality(Eligible(p))
  /\ p.nBallots >= Cardinality(Eligible(p))
  /\ p.withdrawn \subseteq 1 .. p.nCand
  /\ \A j \in DOMAIN p.lines : NoDup(p.lines[j].r) /\ RangeOf(p.lines[j].r) \subseteq Eligible(p) /\ p.lines[j].r # <<>> /\ p.lines[j].m >= 1
  /\ \A j \in DOMAIN p.eqlines : NoDup(Flatten(p.eqlines[j].r)) /\ RangeOf(Flatten(p.eqlines[j].r)) \subseteq Eligible(p)
  /\ p.nBallots = (LET f[j \in 0 .. Len(p.lines)] == IF j = 0 THEN 0 ELSE f[j - 1] + p.lines[j].m
                       g[j \in 0 .. Len(p.eqlines)] == IF j = 0 THEN 0 ELSE g[j - 1] + p.eqlines[j].m
                   IN f[Len(p.lines)] + g[Len(p.eqlines)])
=============================================================================
