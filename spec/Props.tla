------------------------------- MODULE Props -------------------------------
(***************************************************************************)
(* The count properties C01..C09, C18(record part) of /verif/properties.jsonl *)
(* as operators over a *trace record* T: what one count shows at each       *)
(* logAction snapshot.  The same operators are evaluated                     *)
(*   - on histories produced by the TLA+ rule models (Droop.tla, design     *)
(*     level, exhaustive small scope), and                                   *)
(*   - on traces recorded from the real implementation (TraceProps.tla).    *)
(*                                                                           *)
(* T = [ rule, fam in {"greg","meek","qpq"}, kind, S (scale), geps,          *)
(*       exactq, intq, batch, omega, n, seats, nc, wd, und, tie,             *)
(*       lines = << [m, r] >>, eq, outcome, elected, defeated,               *)
(*       acts = << [tag, mc, subj, subjs, tied, tiekind, round, st, pend,    *)
(*                  vote, kf, quot, quota, votes, nt, residual, surplus,     *)
(*                  bal = << [ix, w] >>, va, tx, logs, iters, named] >> ]    *)
(* Every number is an integer in units of 1/S.                               *)
(* Each clause returns the set of action indices at which it FAILS.         *)
(***************************************************************************)
EXTENDS Integers, Sequences, FiniteSets, TLC

Min2(a, b) == IF a < b THEN a ELSE b
Max2(a, b) == IF a > b THEN a ELSE b
Abs(x) == IF x < 0 THEN -x ELSE x

RECURSIVE SumTo(_, _)
SumTo(f, n) == IF n = 0 THEN 0 ELSE f[n] + SumTo(f, n - 1)
Sum(f) == SumTo(f, Len(f))

RECURSIVE SumSet(_, _)
SumSet(f, S) == IF S = {} THEN 0 ELSE LET x == CHOOSE y \in S : TRUE IN f[x] + SumSet(f, S \ {x})

(* <<q, r>> with a*b = q*c + r, 0 <= r < c, never forming a*b (a,b >= 0, c > 0, 2c+b < 2^31) *)
RECURSIVE MulDivSlow(_, _, _)
MulDivSlow(a, b, c) ==
  IF a = 0 THEN <<0, 0>>
  ELSE LET h == MulDivSlow(a \div 2, b, c)
           t == 2 * h[2] + (a % 2) * b
       IN <<2 * h[1] + (t \div c), t % c>>
MulDivQR(a, b, c) ==
  IF b = 0 \/ a <= 2147483647 \div b THEN <<(a * b) \div c, (a * b) % c>>     \* the product fits: compute directly
  ELSE MulDivSlow(a, b, c)
MulDivFloor(a, b, c) == MulDivQR(a, b, c)[1]

RangeSet(s) == {s[i] : i \in DOMAIN s}

----------------------------------------------------------------------------
(* basic vocabulary *)
NA(T) == Len(T.acts)
Cand(T) == 1 .. T.nc
Electable(T) == {c \in Cand(T) : ~T.wd[c] /\ ~(T.rule = "mpls" /\ T.und[c])}
Exempt(T, c) == T.rule = "mpls" /\ T.und[c]
HopefulAt(a) == {c \in DOMAIN a.st : a.st[c] = "H"}
ElectedAt(a) == {c \in DOMAIN a.st : a.st[c] = "E"}
DefeatedAt(a) == {c \in DOMAIN a.st : a.st[c] = "D"}
PendingAt(a) == {c \in DOMAIN a.st : a.st[c] = "E" /\ a.pend[c]}

(* the arithmetic's own order (DESIGN 6): tolerance comparison for guarded *)
LT(T, x, y) == y - x >= T.geps
EQ(T, x, y) == Abs(x - y) < T.geps
LE(T, x, y) == ~LT(T, y, x)

Holds(T, a, c) == IF T.exactq THEN LT(T, a.quota, a.vote[c]) ELSE a.vote[c] >= a.quota

IsRemaining(a) == a.mc \in {"defeat_remaining", "elect_remaining"}
Top(T, a, j) == IF a.bal[j].ix < Len(T.lines[j].r) THEN T.lines[j].r[a.bal[j].ix + 1] ELSE 0
NSurplusTransfers(T, k) == Cardinality({i \in 1 .. k : T.acts[i].mc = "transfer_surplus"})
Unit(T) == 1

----------------------------------------------------------------------------
(* C01 -- every count terminates with the seats filled and every candidate decided *)
C01_outcome(T)  == IF T.outcome = "ok" THEN {} ELSE {0}
C01_end(T)      == IF NA(T) > 0 /\ T.acts[NA(T)].tag = "end" THEN {} ELSE {NA(T)}
C01_seats(T)    == LET a == T.acts[NA(T)] IN
                   IF Cardinality(ElectedAt(a)) = Min2(T.seats, Cardinality(Electable(T))) THEN {} ELSE {NA(T)}
(* only electable candidates are ever elected (not a withdrawn one, nor -- Minneapolis -- an undeclared write-in) *)
C01_electable(T) == {k \in 1 .. NA(T) : ~(ElectedAt(T.acts[k]) \subseteq Electable(T))}
C01_decided(T)  == LET a == T.acts[NA(T)] IN
                   IF \A c \in Cand(T) : IF T.wd[c] THEN a.st[c] = "W" ELSE a.st[c] \in {"E", "D"} THEN {} ELSE {NA(T)}
C01_withdrawn(T) == {k \in 1 .. NA(T) : \E c \in Cand(T) : T.wd[c] /\ (T.acts[k].st[c] # "W" \/ T.acts[k].vote[c] # 0)}
C01_wdballots(T) == IF \E j \in DOMAIN T.lines : \E i \in DOMAIN T.lines[j].r : T.wd[T.lines[j].r[i]] THEN {0} ELSE {}
C01_reported(T) == LET a == T.acts[NA(T)] IN
                   IF RangeSet(T.elected) = ElectedAt(a) /\ RangeSet(T.defeated) = DefeatedAt(a) THEN {} ELSE {NA(T)}

----------------------------------------------------------------------------
(* C02 -- conservation at every step *)
TotalAt(T, a) == Sum(a.vote) + (IF T.fam = "greg" THEN a.nt ELSE IF T.fam = "meek" THEN a.residual ELSE 0)
C02_nonneg(T) == {k \in 1 .. NA(T) : LET a == T.acts[k] IN
                    (\E c \in Cand(T) : a.vote[c] < 0) \/ a.nt < 0 \/ a.residual < 0}
C02_upper(T)  == IF T.fam = "qpq" THEN {} ELSE {k \in 1 .. NA(T) : TotalAt(T, T.acts[k]) > T.n * T.S}
C02_lower(T)  == IF T.fam # "greg" THEN {} ELSE
                 {k \in 1 .. NA(T) : LET a == T.acts[k] IN
                    IF T.kind = "rational" THEN TotalAt(T, a) # T.n * T.S
                    ELSE TotalAt(T, a) < T.n * T.S - 2 * T.n * NSurplusTransfers(T, k)}
(* Meek family: exact at every snapshot taken after a distribution (see C08), and for   *)
(* meek/warren at every snapshot except `begin' (a redistribution follows every change) *)
MeekPost(T, a) ==
  IF T.rule = "meek-prf"
  THEN a.tag \in {"begin", "tie", "end"} \/ a.mc = "elect" \/ a.mc \in {"defeat_omega", "defeat_stable"}
  ELSE a.tag \in {"iterate", "end"}
(* meek/warren: `begin' and the first `round' show the first-preference tallies, before any distribution *)
PreFirstDist(T, k) == /\ k <= 2 /\ \A i \in 1 .. k - 1 : T.acts[i].tag \in {"begin", "round"}
                      /\ \/ T.acts[k].tag \in {"begin", "round"}
                         \/ (k = 2 /\ T.acts[1].tag = "begin" /\ T.acts[k].mc \in {"elect_remaining", "defeat_remaining"})   \* no round at all: logged before its own redistribution
C02_meek(T)   == IF T.fam # "meek" THEN {} ELSE
                 {k \in 1 .. NA(T) : LET a == T.acts[k] IN
                    /\ TotalAt(T, a) # T.n * T.S
                    /\ IF T.rule = "meek-prf" THEN MeekPost(T, a) ELSE ~PreFirstDist(T, k) \/ Len(T.eq) = 0}
(* the shortfalls that remain (meek-prf after an exclusion, meek `begin' with equal ranks) *)
C02_meekshort(T) == IF T.fam # "meek" THEN {} ELSE
                 {k \in 1 .. NA(T) : TotalAt(T, T.acts[k]) < T.n * T.S} \ C02_meek(T)
(* known-finding matchers (DESIGN 8, F10 and F18): the shortfall is EXACTLY the tallies zeroed *)
(* since the last distribution (meek-prf), resp. the unbooked truncation of 1/k at `begin'     *)
RECURSIVE ZeroedBefore(_, _)
ZeroedBefore(T, k) ==   \* sum of the tallies of the candidates excluded since the last distribution before act k
  IF k <= 1 THEN 0
  ELSE LET p == T.acts[k - 1] IN
       IF p.tag = "defeat" THEN p.vote[p.subj] + (IF MeekPost(T, p) THEN 0 ELSE ZeroedBefore(T, k - 1))
       ELSE IF MeekPost(T, p) THEN 0
       ELSE ZeroedBefore(T, k - 1)
F18Shortfall(T) == LET f == [j \in DOMAIN T.eq |-> LET kk == Len(T.eq[j].r[1]) IN T.eq[j].m * (T.S - kk * (T.S \div kk))] IN Sum(f)
C02_meekshort_f10(T) == {k \in C02_meekshort(T) : T.rule = "meek-prf" /\ ~MeekPost(T, T.acts[k])
                           /\ ZeroedBefore(T, k) > 0 /\ T.n * T.S - TotalAt(T, T.acts[k]) = ZeroedBefore(T, k)}
C02_meekshort_f18(T) == {k \in C02_meekshort(T) : T.rule \in {"meek", "warren"} /\ PreFirstDist(T, k) /\ Len(T.eq) > 0
                           /\ T.kind # "rational" /\ T.n * T.S - TotalAt(T, T.acts[k]) = F18Shortfall(T)}
C02_meekshort_other(T) == C02_meekshort(T) \ (C02_meekshort_f10(T) \cup C02_meekshort_f18(T))
(* QPQ: the fractional numbers of candidates elected by all ballots sum to the number elected *)
QpqWeight(T, a) == LET f == [j \in DOMAIN a.bal |-> a.bal[j].w * T.lines[j].m] IN Sum(f)
QpqBeforeRemaining(T, k) == \A i \in 1 .. k : ~IsRemaining(T.acts[i])
C02_qpq(T)    == IF T.fam # "qpq" THEN {} ELSE
                 {k \in 1 .. NA(T) : LET a == T.acts[k] IN
                    /\ a.tag \in {"begin", "round", "transfer"}
                    /\ QpqBeforeRemaining(T, k)
                    /\ LET e == Cardinality(ElectedAt(a))
                           \* truncation allowance of e elections at this precision: each sets vc weights to
                           \* floor(1/floor(qc)), error < vc + (1+tc)^2/vc units; immaterial (< geps) at 9+9 digits
                           tol == Max2(T.geps, e * (T.n + (1 + T.seats) * (1 + T.seats)) + 1)
                       IN Abs(QpqWeight(T, a) - e * T.S) >= tol}

----------------------------------------------------------------------------
(* C04 -- the prescribed quota; quota holders are elected *)
QuotaWant(T, votes) ==
  IF T.rule \in {"scotland", "mpls"} \/ T.intq THEN ((T.n \div (T.seats + 1)) + 1) * T.S
  ELSE IF T.exactq THEN votes \div (T.seats + 1)
  ELSE (votes \div (T.seats + 1)) + 1
C04_quota_greg(T) == IF T.fam # "greg" THEN {} ELSE
  {k \in 1 .. NA(T) : T.acts[k].quota # QuotaWant(T, T.n * T.S)
                      \/ (T.kind = "rational" /\ ~T.intq /\ T.rule = "wigm" /\ (T.n * T.S) % (T.seats + 1) # 0)}
MeekQuotaPoint(T, a) ==
  IF T.rule = "meek-prf" THEN a.tag = "tie" \/ a.mc = "elect" \/ a.mc \in {"defeat_omega", "defeat_stable"}
  ELSE a.tag \in {"iterate", "tie"} \/ a.mc = "elect" \/ a.mc \in {"defeat_omega", "defeat_stable"}
C04_quota_meek(T) == IF T.fam # "meek" THEN {} ELSE
  {k \in 1 .. NA(T) : LET a == T.acts[k] IN
     \/ (a.tag = "begin" /\ a.quota # QuotaWant(T, T.n * T.S))
     \/ ((MeekQuotaPoint(T, a) \/ (a.mc = "defeat_certain" /\ T.acts[k - 1].tag = "iterate")) /\ a.quota # QuotaWant(T, a.votes))}
C04_quota_qpq(T) == IF T.fam # "qpq" THEN {} ELSE
  {k \in 1 .. NA(T) : LET a == T.acts[k] IN
     /\ a.tag # "end" /\ QpqBeforeRemaining(T, k)
     /\ a.quota # MulDivFloor(a.va, T.S, (1 + T.seats) * T.S - a.tx)}
(* (i) nobody is excluded while holding a quota (non-final exclusions) *)
C04_i(T) ==
  {k \in 1 .. NA(T) : LET a == T.acts[k] IN
     /\ a.tag = "defeat" /\ a.mc # "defeat_remaining" /\ a.subj # 0 /\ ~Exempt(T, a.subj)
     /\ IF T.fam = "qpq" THEN LT(T, a.quota, a.quot[a.subj]) ELSE Holds(T, a, a.subj)}
(* (ii) right after the rule's election step no hopeful candidate holds a quota *)
FirstUnpendOfRound(T, k) == ~\E i \in 1 .. k - 1 : T.acts[i].tag = "unpend" /\ T.acts[i].round = T.acts[k].round
ElectionStepJustRan(T, k) == LET a == T.acts[k] IN
  IF T.fam = "greg" THEN
     IF T.rule = "mpls" THEN a.tag = "end"
     ELSE IF T.rule \in {"cfer", "cfer-batch"} THEN a.tag \in {"tie", "defeat", "end"} \/ (a.tag = "unpend" /\ FirstUnpendOfRound(T, k))
     ELSE a.tag \in {"unpend", "tie", "defeat", "end"}
  ELSE IF T.fam = "meek" THEN
     (IF T.rule = "meek-prf" THEN a.tag \in {"tie", "end"} \/ a.mc \in {"defeat_omega", "defeat_stable"}
      ELSE a.tag \in {"iterate", "tie", "end"} \/ a.mc \in {"defeat_omega", "defeat_stable"}
           \/ (a.mc = "defeat_certain" /\ T.acts[k - 1].tag = "iterate"))
  ELSE a.mc = "defeat_quotient"
C04_ii(T) ==
  {k \in 1 .. NA(T) : LET a == T.acts[k] IN
     /\ ElectionStepJustRan(T, k)
     /\ \E c \in HopefulAt(a) : ~Exempt(T, c) /\
          IF T.fam = "qpq" THEN LT(T, a.quota, a.quot[c]) ELSE Holds(T, a, c)}
(* (iii) whoever holds a quota at an end-of-step snapshot is elected in the end *)
C04_iii(T) == IF T.fam # "greg" \/ NA(T) = 0 THEN {} ELSE
  {k \in 1 .. NA(T) : LET a == T.acts[k] IN
     /\ a.tag \in {"begin", "round", "transfer", "count"}
     /\ \E c \in HopefulAt(a) : ~Exempt(T, c) /\ Holds(T, a, c) /\ T.acts[NA(T)].st[c] # "E"}

----------------------------------------------------------------------------
(* C05 -- Droop proportionality (terminal predicate over the input and the winners) *)
Solid(T, SS) == LET sz == Cardinality(SS)
                    f == [j \in DOMAIN T.lines |->
                            IF Len(T.lines[j].r) >= sz /\ {T.lines[j].r[i] : i \in 1 .. sz} = SS
                            THEN T.lines[j].m ELSE 0]
                IN Sum(f)
Allow(T) == IF T.kind = "rational" THEN 0 ELSE 2 * T.n * T.nc
(* q0 = the rule's own initial quota; QPQ: n/(s+1) exactly, compared by cross-multiplication *)
C05_applies(T) == T.outcome = "ok" /\ NA(T) > 0 /\ T.acts[NA(T)].tag = "end" /\ Len(T.eq) = 0 /\ ~(T.rule = "mpls" /\ \E c \in Cand(T) : T.und[c])
C05_bad(T) == IF ~C05_applies(T) THEN {} ELSE
  LET el == ElectedAt(T.acts[NA(T)])
      q0 == T.acts[1].quota
  IN {<<SS, k>> \in (SUBSET {c \in Cand(T) : ~T.wd[c]} \ {{}}) \X (1 .. T.seats) :
        /\ LET sol == Solid(T, SS) IN
             IF T.fam = "qpq" THEN sol * T.S * (T.seats + 1) > k * T.n * T.S + Allow(T) * (T.seats + 1)
             ELSE sol * T.S > k * q0 + Allow(T)
        /\ Cardinality(el \cap SS) < Min2(k, Cardinality(SS))}
C05_dpc(T) == IF C05_bad(T) = {} THEN {} ELSE {NA(T)}
C05_nontrivial(T) == C05_applies(T) /\
  \E SS \in (SUBSET {c \in Cand(T) : ~T.wd[c]} \ {{}}) :
     Cardinality(SS) < Cardinality({c \in Cand(T) : ~T.wd[c]}) /\ Solid(T, SS) * T.S > T.acts[1].quota + Allow(T)

----------------------------------------------------------------------------
(* C06 -- Gregory transfers (needs ballot snapshots) *)
HasBal(T) == T.fam = "greg" /\ NA(T) > 0 /\ Len(T.acts[1].bal) = Len(T.lines)
Credit(T, a, c) == LET f == [j \in DOMAIN a.bal |-> IF Top(T, a, j) = c THEN a.bal[j].w * T.lines[j].m ELSE 0] IN Sum(f)
C06_tally(T) == IF ~HasBal(T) THEN {} ELSE
  {k \in 1 .. NA(T) : LET a == T.acts[k] IN
     \E c \in Cand(T) : (a.st[c] = "H" \/ (a.st[c] = "E" /\ a.pend[c])) /\ a.vote[c] # Credit(T, a, c)}
Continuing(T, a, c) == a.st[c] = "H" \/ (T.rule = "mpls" /\ a.st[c] = "E" /\ a.pend[c])
C06_skip(T) == IF ~HasBal(T) THEN {} ELSE
  {k \in 1 .. NA(T) : LET a == T.acts[k] IN
     \E j \in DOMAIN a.bal : \E i \in 1 .. Min2(a.bal[j].ix, Len(T.lines[j].r)) : Continuing(T, a, T.lines[j].r[i])}
MovedUpTo(T, k) == UNION {RangeSet(T.acts[i].subjs) : i \in {i \in 1 .. k : T.acts[i].tag = "transfer"}}
C06_left(T) == IF ~HasBal(T) THEN {} ELSE
  {k \in 1 .. NA(T) : LET a == T.acts[k] IN
     \E j \in DOMAIN a.bal : Top(T, a, j) # 0 /\ Top(T, a, j) \in MovedUpTo(T, k)}
C06_range(T) == IF ~HasBal(T) THEN {} ELSE
  {k \in 1 .. NA(T) : LET a == T.acts[k] IN
     \E j \in DOMAIN a.bal : a.bal[j].w < 0 \/ a.bal[j].w > T.S
        \/ (k > 1 /\ a.bal[j].w > T.acts[k - 1].bal[j].w)
        \/ (k > 1 /\ a.bal[j].ix < T.acts[k - 1].bal[j].ix)}
(* surplus transfer: unpend (mpls: elect) at k-1, transfer at k *)
IsSurplusStep(T, k) == k > 1 /\ T.acts[k].mc = "transfer_surplus" /\ T.acts[k].subj # 0
                       /\ T.acts[k - 1].tag = (IF T.rule = "mpls" THEN "elect" ELSE "unpend")
                       /\ T.acts[k - 1].subj = T.acts[k].subj
C06_surplus(T) == IF ~HasBal(T) THEN {} ELSE
  {k \in 1 .. NA(T) : IsSurplusStep(T, k) /\
     LET a == T.acts[k]  p == T.acts[k - 1]  c == a.subj
         sur == p.vote[c] - p.quota
     IN \/ a.vote[c] # a.quota
        \/ sur < 0
        \/ \E j \in DOMAIN a.bal :
             IF Top(T, p, j) = c
             THEN LET x == MulDivFloor(p.bal[j].w, sur, p.vote[c]) IN
                  IF T.kind = "rational" THEN a.bal[j].w # x \/ MulDivQR(p.bal[j].w, sur, p.vote[c])[2] # 0
                  ELSE IF T.rule = "scotland" THEN a.bal[j].w # x          \* SSI 2007/42 r.48(3): one truncation of A/B
                  ELSE a.bal[j].w > x \/ a.bal[j].w < x - 1
             ELSE a.bal[j] # p.bal[j]}
(* exclusion transfer: weights unchanged, positions move only for the excluded, tallies zero *)
C06_exclusion(T) == IF ~HasBal(T) THEN {} ELSE
  {k \in 2 .. NA(T) : LET a == T.acts[k]  p == T.acts[k - 1] IN
     /\ a.mc = "transfer_defeated"
     /\ \/ \E c \in RangeSet(a.subjs) : a.vote[c] # 0 \/ a.st[c] # "D"
        \/ \E j \in DOMAIN a.bal : a.bal[j].w # p.bal[j].w
              \/ (Top(T, p, j) \notin RangeSet(a.subjs) /\ a.bal[j].ix # p.bal[j].ix)}
(* no action other than a transfer moves or re-weights a ballot *)
C06_still(T) == IF ~HasBal(T) THEN {} ELSE
  {k \in 2 .. NA(T) : T.acts[k].tag # "transfer" /\ T.acts[k].bal # T.acts[k - 1].bal}

----------------------------------------------------------------------------
(* C07 -- who is excluded, which surplus goes first, ties *)
(* maximal run of consecutive defeat actions around k *)
RECURSIVE RunLo(_, _)
RunLo(T, k) == IF k > 1 /\ T.acts[k - 1].tag = "defeat" THEN RunLo(T, k - 1) ELSE k
RECURSIVE RunHi(_, _)
RunHi(T, k) == IF k < NA(T) /\ T.acts[k + 1].tag = "defeat" /\ T.acts[k + 1].mc # "defeat_remaining" THEN RunHi(T, k + 1) ELSE k
NonFinalDefeat(T, k) == T.acts[k].tag = "defeat" /\ T.acts[k].mc # "defeat_remaining" /\ T.acts[k].subj # 0
(* the snapshot whose tallies decided the exclusion: Meek family = last end of iteration *)
RECURSIVE BaseIdx(_, _)
BaseIdx(T, k) == IF T.rule \in {"meek", "warren"}
                 THEN (IF k > 1 /\ T.acts[k].tag \in {"tie", "defeat"} THEN BaseIdx(T, k - 1) ELSE k)
                 ELSE k
Measure(T, a, c) == IF T.fam = "qpq" THEN a.quot[c] ELSE a.vote[c]
C07_lowest(T) ==
  {k \in 1 .. NA(T) : NonFinalDefeat(T, k) /\ ~Exempt(T, T.acts[k].subj) /\
     LET lo == RunLo(T, k)  hi == RunHi(T, k) IN
     /\ lo = hi
     /\ LET b == T.acts[BaseIdx(T, k)]
            c == T.acts[k].subj
            others == HopefulAt(T.acts[k]) \ {x \in Cand(T) : Exempt(T, x)}
            slack == IF T.fam = "meek" /\ ~LT(T, b.surplus, 0) THEN b.surplus ELSE 0     \* a negative surplus (rounding) widens nothing
        IN \E h \in others : LT(T, Measure(T, b, h) + slack, Measure(T, b, c))}
C07_batch(T) ==
  {k \in 1 .. NA(T) : NonFinalDefeat(T, k) /\
     LET lo == RunLo(T, k)  hi == RunHi(T, k) IN
     /\ lo < hi /\ k = lo
     /\ T.acts[k].mc # "defeat_zero"
     /\ LET b == T.acts[BaseIdx(T, k)]
            a == T.acts[k]
            D == {T.acts[i].subj : i \in lo .. hi}
            Dd == {d \in D : ~Exempt(T, d)}
            rem == HopefulAt(T.acts[hi])
            sur == IF T.fam = "meek" THEN b.surplus
                   ELSE SumSet([c \in Cand(T) |-> a.vote[c] - a.quota], PendingAt(a))
            tv == SumSet([c \in Cand(T) |-> b.vote[c]], Dd)
        IN \/ (Dd # {} /\ \E h \in rem : ~LT(T, tv + sur, b.vote[h]))
           \/ Cardinality(rem \ {c \in Cand(T) : Exempt(T, c)}) + Cardinality(ElectedAt(T.acts[hi])) < Min2(T.seats, Cardinality(Electable(T)))}
(* wigm defeat_batch=zero: the documented batch = every zero-vote hopeful; enough must remain *)
C07_zero(T) ==
  {k \in 1 .. NA(T) : NonFinalDefeat(T, k) /\ T.acts[k].mc = "defeat_zero" /\ k = RunLo(T, k) /\
     LET hi == RunHi(T, k)
         D == {T.acts[i].subj : i \in k .. hi}
     IN \/ \E d \in D : T.acts[k].vote[d] # 0
        \/ Cardinality(HopefulAt(T.acts[hi])) + Cardinality(ElectedAt(T.acts[hi])) < Min2(T.seats, Cardinality(Electable(T)))}
(* one surplus at a time: the largest first *)
C07_highest(T) == IF T.rule \notin {"wigm", "wigm-prf", "wigm-prf-batch", "scotland", "mpls"} THEN {} ELSE
  {k \in 1 .. NA(T) : LET a == T.acts[k] IN
     /\ (IF T.rule = "mpls" THEN a.mc = "elect" ELSE a.tag = "unpend") /\ a.subj # 0
     /\ LET rivals == IF T.rule = "mpls" THEN {c \in HopefulAt(a) : a.vote[c] >= a.quota} ELSE PendingAt(a)
        IN \E r \in rivals : LT(T, a.vote[a.subj], a.vote[r])}
(* ties: logged, list exactly the tied set, resolved by the tie order (scotland: prior stage) *)
TieFirst(T, S) == CHOOSE c \in S : \A d \in S : T.tie[c] <= T.tie[d]
ActedNext(T, k) == LET j == CHOOSE j \in k + 1 .. NA(T) + 1 : j = NA(T) + 1 \/ T.acts[j].tag # "tie" IN
                   IF j <= NA(T) THEN T.acts[j] ELSE T.acts[k]
C07_tie_named(T) ==
  {k \in 1 .. NA(T) : LET a == T.acts[k] IN
     /\ a.tag = "tie"
     /\ \/ a.subj = 0 \/ a.subj \notin RangeSet(a.tied) \/ Len(a.tied) < 2
        \/ (k < NA(T) /\ LET nx == ActedNext(T, k) IN
               ~(nx.tag \in {"defeat", "unpend", "elect"} /\ nx.subj = a.subj))
        \/ (a.mc # "tie_prior" /\ a.subj # TieFirst(T, RangeSet(a.tied)))}
(* The tied set, rebuilt the way the arithmetic defines it (DESIGN 6): Python's min()/max()  *)
(* keep the first extreme element in candidate-id order under the arithmetic's own `<';      *)
(* the tied candidates are those `==' to it (Meek family: within the surplus of the true min) *)
RECURSIVE AscSeq(_)
AscSeq(S) == IF S = {} THEN <<>> ELSE LET x == CHOOSE y \in S : \A z \in S : y <= z IN <<x>> \o AscSeq(S \ {x})
RECURSIVE FoldExt(_, _, _, _, _, _)
FoldExt(T, m, q, i, best, dir) ==
  IF i > Len(q) THEN best
  ELSE LET x == m[q[i]] IN
       FoldExt(T, m, q, i + 1, IF (dir = "min" /\ LT(T, x, best)) \/ (dir = "max" /\ LT(T, best, x)) THEN x ELSE best, dir)
PyExt(T, m, S, dir) == LET q == AscSeq(S) IN FoldExt(T, m, q, 2, m[q[1]], dir)
TrueMin(m, S) == LET x == CHOOSE y \in S : \A z \in S : m[y] <= m[z] IN m[x]
ExpectedTied(T, k) ==
  LET a == T.acts[k]
      b == T.acts[BaseIdx(T, k)]
      m == [c \in Cand(T) |-> Measure(T, b, c)]
  IN IF a.tag = "defeat"
     THEN LET pool == HopefulAt(a) \cup {a.subj} IN
          IF T.fam = "meek"       \* within the surplus of the lowest; a negative surplus (rounding) widens nothing
          THEN LET margin == IF LT(T, b.surplus, 0) THEN 0 ELSE b.surplus IN {c \in pool : ~LT(T, TrueMin(m, pool) + margin, m[c])}
          ELSE {c \in pool : EQ(T, m[c], PyExt(T, m, pool, "min"))}
     ELSE LET pool == IF T.rule = "mpls" THEN {c \in HopefulAt(a) \cup {a.subj} : a.vote[c] >= a.quota}
                      ELSE IF T.fam = "qpq" THEN HopefulAt(a) \cup {a.subj}
                      ELSE PendingAt(a) \cup {a.subj}
          IN {c \in pool : EQ(T, m[c], PyExt(T, m, pool, "max"))}
IsChoice(T, k) == LET a == T.acts[k] IN a.subj # 0 /\
  \/ (NonFinalDefeat(T, k) /\ RunLo(T, k) = RunHi(T, k)
      /\ a.mc \in {"defeat", "defeat_low", "defeat_quotient", "defeat_omega", "defeat_stable"})
  \/ (a.tag = "unpend" /\ T.rule \in {"wigm", "wigm-prf", "wigm-prf-batch", "scotland"})
  \/ (a.mc = "elect" /\ T.rule = "mpls")
  \/ (a.mc = "elect_quotient")
C07_ties(T) ==
  {k \in 1 .. NA(T) : IsChoice(T, k) /\
     LET a == T.acts[k]
         tied == ExpectedTied(T, k)
         prevtie == k > 1 /\ T.acts[k - 1].tag = "tie"
     IN \/ a.subj \notin tied
        \/ (Cardinality(tied) > 1 /\ ~(prevtie /\ RangeSet(T.acts[k - 1].tied) = tied /\ T.acts[k - 1].subj = a.subj))
        \/ (Cardinality(tied) = 1 /\ prevtie)}
(* scotland: prior-stage rule (SSI 2007/42 r.49(2)(b), r.51(2)) *)
RoundSnapshots(T, k) == {i \in 1 .. k : T.acts[i].tag = "round"}
Extreme(v, tied, kind) == IF kind = "defeat" THEN {x \in tied : \A y \in tied : v[x] <= v[y]}
                          ELSE {x \in tied : \A y \in tied : v[x] >= v[y]}
(* reading (a), the code's: the most recent stage with a UNIQUE extreme among all tied candidates; none: by lot *)
RECURSIVE ScotCode(_, _, _, _)
ScotCode(T, stages, tied, kind) ==
  IF stages = {} THEN TieFirst(T, tied)
  ELSE LET i == CHOOSE i \in stages : \A j \in stages : j <= i
           ext == Extreme(T.acts[i].vote, tied, kind)
       IN IF Cardinality(ext) = 1 THEN CHOOSE x \in ext : TRUE ELSE ScotCode(T, stages \ {i}, tied, kind)
(* reading (b), the text's: the extreme at the most recent stage where the tallies differed; candidates still level *)
(* there are separated by earlier stages among themselves, finally by lot                                          *)
RECURSIVE ScotText(_, _, _, _)
ScotText(T, stages, tied, kind) ==
  LET diff == {i \in stages : \E x, y \in tied : T.acts[i].vote[x] # T.acts[i].vote[y]} IN
  IF Cardinality(tied) = 1 THEN CHOOSE x \in tied : TRUE
  ELSE IF diff = {} THEN TieFirst(T, tied)
  ELSE LET i == CHOOSE i \in diff : \A j \in diff : j <= i
       IN ScotText(T, {j \in stages : j < i}, Extreme(T.acts[i].vote, tied, kind), kind)
C07_scot_prior(T) == IF T.rule # "scotland" THEN {} ELSE
  {k \in 1 .. NA(T) : LET a == T.acts[k] IN
     /\ a.tag = "tie" /\ a.subj # 0 /\ Len(a.tied) >= 2
     /\ LET tied == RangeSet(a.tied)
            st == RoundSnapshots(T, k)
        IN a.subj \notin {ScotCode(T, st, tied, a.tiekind), ScotText(T, st, tied, a.tiekind)}}

----------------------------------------------------------------------------
(* C08 -- Meek/Warren iterations *)
C08_sum(T) == IF T.fam # "meek" THEN {} ELSE
  {k \in 1 .. NA(T) : MeekPost(T, T.acts[k]) /\ TotalAt(T, T.acts[k]) # T.n * T.S /\ ~(T.acts[k].tag = "begin" /\ Len(T.eq) > 0)}
KfBadAt(T, a, c) ==
  ~T.wd[c] /\ LET st == IF a.tag = "defeat" /\ c = a.subj THEN "H" ELSE a.st[c] IN
              \/ (st = "H" /\ a.kf[c] # T.S)
              \/ (st = "D" /\ a.kf[c] # 0)
              \/ (st = "E" /\ ~(0 < a.kf[c] /\ a.kf[c] <= T.S))
(* F23 (known finding): D.8 / B.2.f `kf = kf * quota / vote, rounded up' applied to an elected candidate whose vote has    *)
(* fallen below the quota (rounding) yields a keep factor above 1.  The matcher identifies the call site: the value is      *)
(* exactly what the update formula gives from the preceding snapshot, where the vote was below quota (or kf already > 1),  *)
(* or it is carried unchanged from the preceding action.                                                                    *)
KfRounds(T) == T.kind # "guarded" \/ T.geps = 1
UpMulDiv(a, b, c) == LET qr == MulDivQR(a, b, c) IN qr[1] + (IF qr[2] # 0 THEN 1 ELSE 0)
KfUpdate(T, kf, q, v) == IF KfRounds(T) THEN UpMulDiv(UpMulDiv(kf, q, T.S), T.S, v) ELSE MulDivFloor(MulDivFloor(kf, q, T.S), T.S, v)
F23From(T, X, kfnew, c) == T.kind # "rational" /\ X.vote[c] > 0 /\ (X.vote[c] < X.quota \/ X.kf[c] > T.S)
                           /\ kfnew = KfUpdate(T, X.kf[c], X.quota, X.vote[c])
F23Explains(T, k, c) ==
  LET a == T.acts[k] IN
  /\ a.st[c] = "E" /\ a.kf[c] > T.S
  /\ IF a.iters # <<>> THEN F23From(T, a.iters[Len(a.iters)], a.kf[c], c)
     ELSE k > 1 /\ T.acts[k - 1].kf[c] = a.kf[c]
(* F24 (known finding): under guarded arithmetic with guard digits (which ignores round='up') the same update truncates   *)
(* kf * quota to 0 once the quota has collapsed (all ballots exhaust): an elected candidate's keep factor becomes 0.        *)
F24From(T, X, kfnew, c) == ~KfRounds(T) /\ T.kind # "rational" /\ X.vote[c] > 0 /\ kfnew = 0 /\ KfUpdate(T, X.kf[c], X.quota, X.vote[c]) = 0
F24Explains(T, k, c) ==
  LET a == T.acts[k] IN
  /\ a.st[c] = "E" /\ a.kf[c] = 0
  /\ IF a.iters # <<>> THEN F24From(T, a.iters[Len(a.iters)], 0, c)
     ELSE k > 1 /\ T.acts[k - 1].kf[c] = 0
C08_kf_any(T) == IF T.fam # "meek" THEN {} ELSE
  {k \in 1 .. NA(T) : MeekPost(T, T.acts[k]) /\ \E c \in Cand(T) : KfBadAt(T, T.acts[k], c)}
C08_kf(T) == {k \in C08_kf_any(T) : \E c \in Cand(T) : KfBadAt(T, T.acts[k], c) /\ ~F23Explains(T, k, c) /\ ~F24Explains(T, k, c)}
C08_kf_f23(T) == {k \in C08_kf_any(T) \ C08_kf(T) : \E c \in Cand(T) : KfBadAt(T, T.acts[k], c) /\ F23Explains(T, k, c)}
C08_kf_f24(T) == {k \in C08_kf_any(T) \ C08_kf(T) : \E c \in Cand(T) : KfBadAt(T, T.acts[k], c) /\ F24Explains(T, k, c)}
C08_nonneg(T) == IF T.fam # "meek" THEN {} ELSE
  {k \in 1 .. NA(T) : LET a == T.acts[k] IN a.residual < 0 \/ \E c \in Cand(T) : a.vote[c] < 0}
C08_omega(T) == IF T.fam # "meek" THEN {} ELSE
  {k \in 1 .. NA(T) : LET a == T.acts[k] IN
     \/ (a.mc = "iterate_omega" /\ LT(T, T.omega, a.surplus))
     \/ (a.mc = "iterate_stable" /\ "log_stable" \notin RangeSet(a.logs))
     \/ (a.mc = "defeat_omega" /\ T.rule = "meek-prf" /\ ~LT(T, a.surplus, T.omega))
     \/ (a.mc = "defeat_stable" /\ T.rule = "meek-prf" /\ "log_stable" \notin RangeSet(a.logs)
         /\ ~(k > 1 /\ T.acts[k - 1].tag = "tie" /\ "log_stable" \in RangeSet(T.acts[k - 1].logs)))}
(* exclusions only after an end of iteration (omega, stable or batch), never after `elected' *)
C08_order(T) == IF T.rule \notin {"meek", "warren"} THEN {} ELSE
  {k \in 1 .. NA(T) : NonFinalDefeat(T, k) /\
     LET b == T.acts[BaseIdx(T, k)] IN
     ~(b.tag = "iterate" /\ b.round = T.acts[k].round
       /\ IF T.acts[k].mc = "defeat_certain" THEN b.mc = "iterate_batch"
          ELSE IF T.acts[k].mc = "defeat_omega" THEN b.mc = "iterate_omega"
          ELSE T.acts[k].mc = "defeat_stable" /\ b.mc = "iterate_stable")}
IterF23(T, k, i, c) == LET its == T.acts[k].iters IN
  IF i > 1 THEN F23From(T, its[i - 1], its[i].kf[c], c) ELSE k > 1 /\ T.acts[k - 1].kf[c] = its[1].kf[c]
C08_iters_f23(T) == IF T.fam # "meek" THEN {} ELSE
  {k \in 1 .. NA(T) : \E i \in DOMAIN T.acts[k].iters : \E c \in Cand(T) : T.acts[k].iters[i].kf[c] > T.S /\ IterF23(T, k, i, c)}
(* internal iterations (V.div snapshots): conservation, keep factors in range, surplus decreasing *)
C08_iters(T) == IF T.fam # "meek" THEN {} ELSE
  {k \in 1 .. NA(T) : \E i \in DOMAIN T.acts[k].iters : LET it == T.acts[k].iters[i] IN
     \/ Sum(it.vote) + it.residual # T.n * T.S
     \/ it.residual < 0
     \/ it.quota # QuotaWant(T, it.votes)
     \/ ~LT(T, T.omega, it.surplus) /\ T.rule # "meek-prf"
     \/ (T.rule = "meek-prf" /\ it.surplus < T.omega)
     \/ \E c \in Cand(T) : it.kf[c] < 0 \/ it.vote[c] < 0
     \/ \E c \in Cand(T) : it.kf[c] > T.S /\ ~IterF23(T, k, i, c)
     \/ (i > 1 /\ ~LT(T, it.surplus, T.acts[k].iters[i - 1].surplus))}

----------------------------------------------------------------------------
(* C09 -- status only moves forward; seats never over/under-committed *)
QpqRestartStep(T, k) == T.fam = "qpq" /\ k > 2 /\ T.acts[k - 1].tag = "round" /\ T.acts[k - 2].mc = "transfer_defeated"
C09_moves(T) ==
  {k \in 2 .. NA(T) : LET a == T.acts[k]  p == T.acts[k - 1] IN
     \E c \in Cand(T) :
        \/ (p.st[c] # a.st[c] /\ p.st[c] # "H" /\ ~(QpqRestartStep(T, k) /\ p.st[c] = "E" /\ a.st[c] = "H"))
        \/ (p.st[c] = "H" /\ a.st[c] \notin {"H", "E", "D"})
        \/ (p.st[c] = "E" /\ a.st[c] = "E" /\ ~p.pend[c] /\ a.pend[c])}
C09_over_any(T) == {k \in 1 .. NA(T) : Cardinality(ElectedAt(T.acts[k])) > T.seats}
(* F25 (known finding): step D.4 / B.2.c of the Meek family elects every hopeful candidate that has reached the quota without *)
(* looking at the seats left; at low precision rounding lets more candidates than seats reach it in the same iteration.       *)
(* The matcher identifies the call site: the first over-commitment is an in-iteration `elect' of a candidate with the quota.   *)
MinOf(S) == CHOOSE x \in S : \A y \in S : x <= y
F25(T) == T.fam = "meek" /\ C09_over_any(T) # {} /\
          LET a == T.acts[MinOf(C09_over_any(T))] IN
          a.tag = "elect" /\ a.mc = "elect" /\ a.subj # 0 /\
          (IF T.exactq THEN LT(T, a.quota, a.vote[a.subj]) ELSE a.vote[a.subj] >= a.quota)
C09_over(T)  == IF F25(T) THEN {} ELSE C09_over_any(T)
C09_over_f25(T) == IF F25(T) THEN C09_over_any(T) ELSE {}
C09_under(T) == {k \in 1 .. NA(T) : LET a == T.acts[k] IN
                   Cardinality(ElectedAt(a)) + Cardinality(HopefulAt(a) \ {c \in Cand(T) : Exempt(T, c)}) < Min2(T.seats, Cardinality(Electable(T)))}
C09_round(T) == {k \in 2 .. NA(T) : T.acts[k].round < T.acts[k - 1].round}

----------------------------------------------------------------------------
(* C18 (record part) -- the record is a faithful audit trail *)
C18_first(T) == IF NA(T) = 0 THEN {0} ELSE
  IF T.rule = "mpls" THEN (IF NA(T) >= 2 /\ T.acts[1].tag = "round" /\ T.acts[2].tag = "count" THEN {} ELSE {1})
  ELSE (IF T.acts[1].tag = "begin" THEN {} ELSE {1})
C18_last(T) == IF T.outcome # "ok" THEN {} ELSE IF NA(T) > 0 /\ T.acts[NA(T)].tag = "end" /\ \A k \in 1 .. NA(T) - 1 : T.acts[k].tag # "end" THEN {} ELSE {NA(T)}
(* baseline for the comparison: after a QPQ restart every elected candidate is hopeful again *)
PrevSt(T, k) == IF QpqRestartStep(T, k) THEN [c \in Cand(T) |-> IF T.acts[k - 1].st[c] = "E" THEN "H" ELSE T.acts[k - 1].st[c]]
                ELSE T.acts[k - 1].st
C18_listed(T) ==
  {k \in 2 .. NA(T) : LET a == T.acts[k]  p == T.acts[k - 1]
                          changed == {c \in Cand(T) : a.st[c] # PrevSt(T, k)[c]} IN
     IF a.tag \in {"elect", "defeat"}
     THEN \/ a.subj = 0 \/ ~a.named
          \/ ~(a.st[a.subj] # PrevSt(T, k)[a.subj] \/ a.pend[a.subj] # p.pend[a.subj])
          \/ changed \ {a.subj} # {}
          \/ a.st[a.subj] # (IF a.tag = "elect" THEN "E" ELSE "D")
     ELSE changed # {}}
C18_first_nochange(T) == IF NA(T) = 0 THEN {} ELSE
  IF \E c \in Cand(T) : T.acts[1].st[c] \notin {"H", "W"} THEN {1} ELSE {}

----------------------------------------------------------------------------
Tag(p, cl, S) == {<<p, cl, k>> : k \in S}

FailC01(T) == Tag("C01", "outcome", C01_outcome(T)) \cup
              (IF T.outcome # "ok" \/ NA(T) = 0 THEN {} ELSE
                 Tag("C01", "end", C01_end(T)) \cup Tag("C01", IF F25(T) THEN "KNOWN_F25" ELSE "seats", C01_seats(T)) \cup
                 Tag("C01", "decided", C01_decided(T)) \cup Tag("C01", "electable", C01_electable(T)) \cup Tag("C01", "withdrawn", C01_withdrawn(T)) \cup
                 Tag("C01", "wdballots", C01_wdballots(T)) \cup Tag("C01", "reported", C01_reported(T)))
FailC02(T) == Tag("C02", "nonneg", C02_nonneg(T)) \cup Tag("C02", "upper", C02_upper(T)) \cup
              Tag("C02", "lower", C02_lower(T)) \cup Tag("C02", "meek", C02_meek(T)) \cup
              Tag("C02", "meekshort_other", C02_meekshort_other(T)) \cup Tag("C02", "KNOWN_F10", C02_meekshort_f10(T)) \cup
              Tag("C02", "KNOWN_F18", C02_meekshort_f18(T)) \cup Tag("C02", "qpq", C02_qpq(T))
FailC04(T) == Tag("C04", "quota_greg", C04_quota_greg(T)) \cup Tag("C04", "quota_meek", C04_quota_meek(T)) \cup
              Tag("C04", "quota_qpq", C04_quota_qpq(T)) \cup Tag("C04", "i", C04_i(T)) \cup
              Tag("C04", "ii", C04_ii(T)) \cup Tag("C04", "iii", C04_iii(T))
(* F11 (known finding): warren -- an iteration ends `stable' with a surplus above omega and a candidate is then excluded *)
(* with that surplus untransferred (the same criterion as checks.f11_match)                                             *)
F11(T) == T.rule = "warren" /\ \E k \in 1 .. NA(T) :
            /\ T.acts[k].mc = "iterate_stable" /\ T.acts[k].surplus - T.omega >= T.geps
            /\ \E j \in (k + 1) .. Min2(k + 3, NA(T)) : T.acts[j].tag = "defeat" /\ T.acts[j].mc # "defeat_remaining"
FailC05(T) == Tag("C05", IF F11(T) THEN "KNOWN_F11" ELSE "dpc", C05_dpc(T))
FailC06(T) == Tag("C06", "tally", C06_tally(T)) \cup Tag("C06", "skip", C06_skip(T)) \cup
              Tag("C06", "left", C06_left(T)) \cup Tag("C06", "range", C06_range(T)) \cup
              Tag("C06", "surplus", C06_surplus(T)) \cup Tag("C06", "exclusion", C06_exclusion(T)) \cup
              Tag("C06", "still", C06_still(T))
FailC07(T) == Tag("C07", "lowest", C07_lowest(T)) \cup Tag("C07", "batch", C07_batch(T)) \cup
              Tag("C07", "zero", C07_zero(T)) \cup Tag("C07", "highest", C07_highest(T)) \cup
              Tag("C07", "tie_named", C07_tie_named(T)) \cup Tag("C07", "ties", C07_ties(T)) \cup
              Tag("C07", "scot_prior", C07_scot_prior(T))
FailC08(T) == Tag("C08", "sum", C08_sum(T)) \cup Tag("C08", "kf", C08_kf(T)) \cup Tag("C08", "KNOWN_F23", C08_kf_f23(T) \cup C08_iters_f23(T)) \cup Tag("C08", "KNOWN_F24", C08_kf_f24(T)) \cup
              Tag("C08", "nonneg", C08_nonneg(T)) \cup Tag("C08", "omega", C08_omega(T)) \cup
              Tag("C08", "order", C08_order(T)) \cup Tag("C08", "iters", C08_iters(T))
FailC09(T) == Tag("C09", "moves", C09_moves(T)) \cup Tag("C09", "over", C09_over(T)) \cup Tag("C09", "KNOWN_F25", C09_over_f25(T)) \cup
              Tag("C09", "under", C09_under(T)) \cup Tag("C09", "round", C09_round(T))
FailC18(T) == Tag("C18", "first", C18_first(T)) \cup Tag("C18", "last", C18_last(T)) \cup
              Tag("C18", "listed", C18_listed(T)) \cup Tag("C18", "first_nochange", C18_first_nochange(T)) \cup
              (IF T.outcome = "ok" /\ T.acts[NA(T)].tag = "end" THEN Tag("C18", "final_reported", C01_reported(T)) ELSE {})

(* a count whose post-count assertion failed still has its whole recorded history judged *)
Ok(T) == T.outcome \in {"ok", "exc"} /\ NA(T) > 0
FailOf(p, T) ==
  CASE p = "C01" -> FailC01(T)
    [] p = "C02" -> IF Ok(T) THEN FailC02(T) ELSE {}
    [] p = "C04" -> IF Ok(T) THEN FailC04(T) ELSE {}
    [] p = "C05" -> IF Ok(T) THEN FailC05(T) ELSE {}
    [] p = "C06" -> IF Ok(T) THEN FailC06(T) ELSE {}
    [] p = "C07" -> IF Ok(T) THEN FailC07(T) ELSE {}
    [] p = "C08" -> IF Ok(T) THEN FailC08(T) ELSE {}
    [] p = "C09" -> IF Ok(T) THEN FailC09(T) ELSE {}
    [] p = "C18" -> IF Ok(T) THEN FailC18(T) ELSE {}
    [] OTHER -> {}
=============================================================================
