---------------------------- MODULE TraceRender -----------------------------
EXTENDS Render, Json, IOUtils, TLCExt
CONSTANTS NW
Recs == ndJsonDeserialize(IOEnv.TRACE_FILE)
VARIABLE i
Init == i \in 1 .. NW
Next == i + NW <= Len(Recs) /\ i' = i + NW
Judged == IF i <= Len(Recs) THEN PrintT(ToString(<<"RENDER", Recs[i].id, RenderFails(Recs[i])>>)) ELSE TRUE
=============================================================================
