---- MODULE RuleQpq ----
EXTENDS Election
Step_qpq(s) == s
====
