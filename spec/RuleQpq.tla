------------------------------ MODULE RuleQpq -------------------------------
(***************************************************************************)
(* qpq: droop/rules/qpq.py.  Clause ids: Woodall, "QPQ, a quota-           *)
(* preferential STV-like election rule", Voting matters 17, 2.1-2.6.       *)
(* cstate.vote is vc (ballots contributing), cstate.quotient is qc.        *)
(***************************************************************************)
EXTENDS Election

Q_Complete(s) == SeatsLeft(s) <= 0 \/ Cardinality(HopefulS(s)) <= SeatsLeft(s)
Q_Quota(s) == VDiv(s.h, s.va, VInt(s.h, 1 + s.h.seats) - s.tx)                          \* 2.4
(* transfer(): advance to the next hopeful candidate, nothing is credited *)
Q_Advance(s, J, w2, cont) ==
  [s EXCEPT !.bal = [j \in 1 .. NLines(s) |-> IF j \in J THEN [ix |-> NextIx(s, j, s.bal[j].ix, cont), w |-> w2[j]] ELSE s.bal[j]]]

(* 2.3, 2.4: restart after an exclusion, then quotients and quota *)
Q_Recount(s0) ==
  LET s1 == IF s0.istat = "restart"
            THEN LET u == [s0 EXCEPT !.st = [c \in CandS(s0) |-> IF s0.st[c] = "E" THEN "H" ELSE s0.st[c]],
                                     !.bal = [j \in 1 .. NLines(s0) |-> [ix |-> 0, w |-> 0]], !.istat = ""]
                 IN Q_Advance(u, 1 .. NLines(u), [j \in 1 .. NLines(u) |-> 0], HopefulS(u))
            ELSE s0
      H == HopefulS(s1)
      val == [j \in 1 .. NLines(s1) |-> s1.bal[j].w * s1.h.lines[j].m]
      tx == Sum([j \in 1 .. NLines(s1) |-> IF TopOf(s1, j) = 0 THEN val[j] ELSE 0])
      va == Sum([j \in 1 .. NLines(s1) |-> IF TopOf(s1, j) # 0 THEN s1.h.lines[j].m * s1.h.S ELSE 0])
      tc == [c \in CandS(s1) |-> IF c \in H THEN Sum([j \in 1 .. NLines(s1) |-> IF TopOf(s1, j) = c THEN val[j] ELSE 0]) ELSE s1.tc[c]]
      vc == [c \in CandS(s1) |-> IF c \in H THEN Sum([j \in 1 .. NLines(s1) |-> IF TopOf(s1, j) = c THEN s1.h.lines[j].m * s1.h.S ELSE 0]) ELSE s1.vote[c]]
      qc == [c \in CandS(s1) |-> IF c \in H THEN VDiv(s1.h, vc[c], s1.h.S + tc[c]) ELSE s1.quot[c]]
      s2 == [s1 EXCEPT !.tx = tx, !.va = va, !.tc = tc, !.vote = vc, !.quot = qc]
  IN [s2 EXCEPT !.quota = Q_Quota(s2)]

Q_Finish(s) == [s EXCEPT !.pc = "finish", !.flag = FALSE,
                         !.istat = IF Cardinality(HopefulS(s)) <= SeatsLeft(s) THEN "elect" ELSE "defeat"]
Q_FinishStep(s) ==
  IF HopefulS(s) # {}
  THEN LET c == SetOrder(HopefulS(s))[1] IN
       IF s.istat = "elect" THEN Elect(s, c, "elect_remaining", FALSE) ELSE Defeat(s, c, "defeat_remaining")
  ELSE [Log(s, "end", "end", 0) EXCEPT !.pc = "done"]

Q_Decide(s) ==
  LET H == HopefulS(s)
      high == PyMaxOver(s, s.quot, H)
  IN IF VGT(s.h, high, s.quota)                                                          \* 2.5a
     THEN LET tied == {c \in H : VEQ(s.h, s.quot[c], high)}
              hc == FirstInTieOrder(s, tied)
          IN IF Cardinality(tied) > 1 /\ ~s.flag
             THEN [LogTie(s, "tie_lot", "surplus", tied, hc) EXCEPT !.pc = "decide", !.flag = TRUE]
             ELSE [Elect(s, hc, "elect_quotient", FALSE) EXCEPT !.pc = "qelected", !.cur = hc, !.flag = FALSE]
     ELSE LET low == PyMinOver(s, s.quot, H)                                             \* 2.5b
              tied == {c \in H : VEQ(s.h, s.quot[c], low)}
              lc == FirstInTieOrder(s, tied)
          IN IF Cardinality(tied) > 1 /\ ~s.flag
             THEN [LogTie(s, "tie_lot", "defeat", tied, lc) EXCEPT !.pc = "decide", !.flag = TRUE]
             ELSE [Defeat(s, lc, "defeat_quotient") EXCEPT !.pc = "qdefeated", !.cur = lc, !.flag = FALSE]

Step_qpq(s) ==
  CASE s.pc = "start" ->                                                                 \* 2.1, 2.2
         LET s1 == [s EXCEPT !.va = s.h.n * s.h.S, !.tx = 0,
                             !.bal = [j \in 1 .. NLines(s) |-> [ix |-> 0, w |-> 0]]]
             s2 == [s1 EXCEPT !.quota = Q_Quota(s1)]
         IN [Log(s2, "begin", "begin", 0) EXCEPT !.pc = "loop", !.istat = "restart"]
    [] s.pc = "loop" ->                                                                  \* 2.6
         IF Q_Complete(s) THEN Q_FinishStep(Q_Finish(s)) ELSE [NewRound(s) EXCEPT !.pc = "stage"]
    [] s.pc = "stage" -> Q_Decide(Q_Recount(s))
    [] s.pc = "decide" -> Q_Decide(s)
    [] s.pc = "qelected" ->                                                              \* 2.5a: each contributing ballot has now elected 1/qc candidates
         LET c == s.cur
             nw == VDiv(s.h, s.h.S, s.quot[c])
             J == {j \in 1 .. NLines(s) : TopOf(s, j) = c}
             s1 == Q_Advance(s, J, [j \in 1 .. NLines(s) |-> nw], HopefulS(s))
         IN [LogTransfer(s1, "transfer_elected", <<c>>) EXCEPT !.pc = "loop"]
    [] s.pc = "qdefeated" ->
         LET c == s.cur
             J == {j \in 1 .. NLines(s) : TopOf(s, j) = c}
             s1 == Q_Advance(s, J, [j \in 1 .. NLines(s) |-> s.bal[j].w], HopefulS(s))
         IN [LogTransfer(s1, "transfer_defeated", <<c>>) EXCEPT !.pc = "loop", !.istat = "restart"]
    [] s.pc = "finish" -> Q_FinishStep(s)
=============================================================================
