# pair properties: C10 presentation, C11 neutrality + withdrawn, C07e tie-order independence
import sys, random, collections, copy
from drv import *
rng=random.Random(int(sys.argv[1]) if len(sys.argv)>1 else 1)
N=int(sys.argv[2]) if len(sys.argv)>2 else 150
ARITHS={'wigm':[{}, {'arithmetic':'fixed','precision':2},{'arithmetic':'integer'},{'arithmetic':'rational'},{'arithmetic':'fixed','precision':4,'defeat_batch':'zero'}],
  'meek':[{}, {'arithmetic':'fixed','precision':3},{'arithmetic':'guarded','precision':4,'guard':2}],
  'warren':[{'arithmetic':'fixed','precision':3}]}
fails=collections.Counter(); ex={}; seen=collections.Counter()
def fail(k,info): fails[k]+=1; ex.setdefault(k,info)
def hist(r, names, byname=True):
    "history keyed by names"
    h=[]
    for a in r['acts']:
        h.append((a['tag'], a['msg'], a['round'], a['quota'], tuple(sorted((names[c],a['st'][c],a['pend'][c],a['vote'][c],a['kf'][c],a['quot'][c]) for c in a['st'] if a['st'][c]!='withdrawn')), a['nt'], a['residual']))
    return h
def final(r,names):
    a=r['acts'][-1]
    return (sorted(names[c] for c in a['st'] if a['st'][c]=='elected'), sorted((names[c],a['vote'][c]) for c in a['st'] if a['st'][c]!='withdrawn'))
tot=0
for i in range(N):
    pr=randprofile(rng, maxc=6, maxlines=7, maxm=4, wd=True, und=False)
    nc=pr['nc']; names={c:'n%d'%c for c in range(1,nc+1)}
    base=mkblt(names=[names[c] for c in range(1,nc+1)], **pr)
    # C10: presentation: shuffle lines, split multipliers
    lines2=[]
    for m,rk in pr['lines']:
        while m>1 and rng.random()<0.5:
            k=rng.randint(1,m-1); lines2.append((k,rk)); m-=k
        lines2.append((m,rk))
    rng.shuffle(lines2)
    # merge identical
    if rng.random()<0.5:
        d=collections.OrderedDict()
        for m,rk in lines2: d[tuple(rk)]=d.get(tuple(rk),0)+m
        lines2=[(m,list(rk)) for rk,m in d.items()]
    pr2=dict(pr, lines=lines2)
    pres=mkblt(names=[names[c] for c in range(1,nc+1)], **pr2)
    # C11a: permute ids
    perm=list(range(1,nc+1)); rng.shuffle(perm); pi={c:perm[c-1] for c in range(1,nc+1)}   # old->new
    inv={v:k for k,v in pi.items()}
    pr3=dict(pr, lines=[(m,[pi[c] for c in rk]) for m,rk in pr['lines']], tie=[pi[c] for c in pr['tie']], withdrawn=[pi[c] for c in pr['withdrawn']])
    names3={pi[c]:names[c] for c in names}
    permd=mkblt(names=[names3[c] for c in range(1,nc+1)], **pr3)
    # C11b: delete withdrawn
    keep=[c for c in range(1,nc+1) if c not in pr['withdrawn']]
    ren={c:i+1 for i,c in enumerate(keep)}
    l4=[(m,[ren[c] for c in rk if c in ren]) for m,rk in pr['lines']]; l4=[(m,rk) for m,rk in l4 if rk]
    pr4=dict(nc=len(keep), seats=pr['seats'], lines=l4, tie=[ren[c] for c in pr['tie'] if c in ren], withdrawn=[], undeclared=[])
    names4={ren[c]:names[c] for c in keep}
    deld=mkblt(names=[names4[c] for c in range(1,len(keep)+1)], **pr4)
    # C07e other tie order
    t2=list(pr['tie']); rng.shuffle(t2)
    tied=mkblt(names=[names[c] for c in range(1,nc+1)], **dict(pr, tie=t2))
    for rule in RULES:
        for ar in ARITHS.get(rule,[{}]):
            opts=dict(rule=rule, **ar); tot+=1
            r0=run(base,opts,budget=10)
            if r0['exc']: seen['exc']+=1; continue
            h0=hist(r0,names)
            r1=run(pres,opts,budget=10)
            if r1['exc'] or hist(r1,names)!=h0: fail(('C10',rule,str(ar)),(base,pres,opts))
            elif r0['E'].report()!=r1['E'].report() or r0['E'].dump()!=r1['E'].dump(): fail(('C10text',rule),(base,pres,opts))
            r3=run(permd,opts,budget=10)
            if r3['exc'] or final(r3,names3)!=final(r0,names): fail(('C11a',rule,str(ar)),(base,permd,opts))
            elif hist(r3,names3)!=h0: seen[('C11a-histdiff',rule)]+=1
            if pr['withdrawn']:
                r4=run(deld,opts,budget=10); seen['wd']+=1
                if r4['exc'] or hist(r4,names4)!=h0: fail(('C11b',rule,str(ar)),(base,deld,opts))
            if not any(a['tag']=='tie' for a in r0['acts']):
                r5=run(tied,opts,budget=10); seen['notie']+=1
                if r5['exc'] or hist(r5,names)!=h0: fail(('C07e',rule,str(ar)),(base,tied,opts))
            else: seen['tie']+=1
print(tot,'runs', dict(seen))
for k,v in sorted(fails.items(), key=str): print(v,k)
import pprint
for k in list(ex)[:5]: print(k); pprint.pprint(ex[k])
