import sys, random, collections, itertools
sys.path.insert(0,'/repo'); sys.dont_write_bytecode=True
from fractions import Fraction as F
from math import floor
from droop.options import Options
from droop.values.fixed import Fixed
from droop.values.guarded import Guarded
from droop.values.rational import Rational
if __name__=='__main__':
    bad=collections.Counter(); ex={}
    def fail(k,info): bad[k]+=1; ex.setdefault(k,info)
    rng=random.Random(1)
    def fl(x): return floor(x)
    # ---- Fixed laws
    for p in (0,1,2,3,9):
        for d in range(0,p+1):
            Fixed.initialize(Options(dict(arithmetic='fixed',precision=p,display=d)))
            S=10**p
            vals=list(range(-25,26))+[S-1,S,S+1,-S,-S-1,10**40+7,-(10**40)-3]+[rng.randint(-10**6,10**6) for _ in range(30)]
            for a in vals:
                A=Fixed(a,True); x=F(a,S)
                # str law: round half up to d digits
                s=str(A)
                q=floor(x*10**d+F(1,2)) if p>0 else a
                if p==0: want=str(a)
                else:
                    sign='-' if q<0 else ''
                    want='%s%d.%0*d'%(sign,abs(q)//10**d,d,abs(q)%10**d) if d>0 else '%s%d.'%(sign,abs(q))
                if s!=want: fail(('str',p,d,'neg' if a<0 else 'nonneg'),(a,s,want))
                if A._value!=a: fail('str-mutates',(a,))
            for a,b in itertools.product(vals[:40],repeat=2):
                A=Fixed(a,True); B=Fixed(b,True); x=F(a,S); y=F(b,S)
                if (A+B)._value!=a+b or (A-B)._value!=a-b: fail(('addsub',p),(a,b))
                if (A*B)._value!=fl(x*y*S): fail(('mul',p),(a,b,(A*B)._value,fl(x*y*S)))
                if (A*3)._value!=3*a: fail(('mulint',p),(a,))
                if b!=0:
                    if (A/B)._value!=fl(x/y*S): fail(('div',p, 'negdiv' if b<0 else 'posdiv'),(a,b,(A/B)._value,fl(x/y*S)))
                    for rnd in ('down','up'):
                        e=x/y*S; w=fl(e)+(1 if rnd=='up' and e!=fl(e) else 0)
                        if Fixed.div(A,B,round=rnd)._value!=w: fail(('divr',p,rnd),(a,b))
                for rnd in ('down','up'):
                    e=x*y*S; w=fl(e)+(1 if rnd=='up' and e!=fl(e) else 0)
                    if Fixed.mul(A,B,round=rnd)._value!=w: fail(('mulr',p,rnd),(a,b))
                for c in (1,7,-3,S):
                    C=Fixed(c,True)
                    for rnd in ('down','up'):
                        e=F(a*b,c); w=fl(e)+(1 if rnd=='up' and e!=fl(e) else 0)
                        if Fixed.muldiv(A,B,C,round=rnd)._value!=w: fail(('muldiv',p,rnd),(a,b,c))
                if (A<B)!=(a<b) or (A==B)!=(a==b) or (A>=B)!=(a>=b): fail(('cmp',p),(a,b))
                for r in (A+B,A*B,-A,abs(A),+A,Fixed.mul(A,B,round='up')):
                    if type(r) is not Fixed: fail(('type',p),(a,b))
    # ---- Guarded cmp law + g=0 == fixed + str
    for p,g in ((2,0),(2,1),(3,2),(4,3),(1,1)):
        for d in (0,p, p+g, max(p-1,0), p+1 if g>0 else p):
            Guarded.initialize(Options(dict(arithmetic='guarded',precision=p,guard=g,display=d)))
            S=10**(p+g); geps=max(10**g//2,1); dd=min(d,p+g)
            vals=list(range(-12,13))+[geps-1,geps,geps+1,S,S+geps,S-geps,-S+geps-1]
            for a,b in itertools.product(vals,repeat=2):
                A=Guarded(a,True); B=Guarded(b,True)
                eq=abs(a-b)<geps
                t=(A<B,A==B,A>B)
                want=(not eq and a<b, eq, not eq and a>b)
                if t!=want or sum(t)!=1: fail(('gcmp',p,g),(a,b,t))
            for a in vals+[rng.randint(-10**6,10**6) for _ in range(40)]:
                A=Guarded(a,True); x=F(a,S); s=str(A)
                q=floor(x*10**dd+F(1,2)); sign='-' if q<0 else ''
                ip=abs(q)//10**dd; fr=abs(q)%10**dd
                if dd<=p: want='%s%d.%0*d'%(sign,ip,dd,fr) if dd>0 else '%s%d.'%(sign,ip)
                else: want='%s%d.%0*d_%0*d'%(sign,ip,p,fr//10**(dd-p),dd-p,fr%10**(dd-p))
                if s!=want: fail(('gstr',p,g,d,'neg' if a<0 else 'nonneg'),(a,s,want))
    # ---- Rational str
    for d in (0,3,12):
        Rational.initialize(Options(dict(arithmetic='rational',display=d)))
        for _ in range(300):
            x=F(rng.randint(-3000,3000),rng.randint(1,997)); R=Rational(x); s=str(R)
            q=floor(x*10**d+F(1,2)); sign='-' if q<0 else ''
            want='%s%d.%0*d'%(sign,abs(q)//10**d,d,abs(q)%10**d) if d>0 else '%s%d.'%(sign,abs(q))
            if s!=want: fail(('rstr',d,'neg' if x<0 else 'nonneg'),(x,s,want))
        a=Rational(1,3); b=Rational(2,7)
        for r in (a+b,a-b,a*b,a/b,-a,abs(a),a//b,1+a,2*a,Rational.mul(a,b),Rational.div(a,b),Rational.muldiv(a,b,a)):
            if type(r) is not Rational: fail(('rtype',),(r,type(r)))
    for k,v in sorted(bad.items(),key=str): print(v,k,ex[k])
    print('done')
