from q1 import run
import difflib
if __name__=='__main__':
    a='3 1\n[tie 2 1 3]\n[withdrawn 3]\n4 3 2 0\n1 2 0\n4 2 0\n1 3 2 1 0\n0\n"n1" "n2" "n3"\n"t"\n'
    b='3 1\n[tie 2 1 3]\n[withdrawn 3]\n2 2 0\n1 2 0\n1 2 0\n4 3 2 0\n1 2 0\n1 3 2 1 0\n0\n"n1" "n2" "n3"\n"t"\n'
    for rule in ('wigm','meek'):
        ra=run(a,{'rule':rule}); rb=run(b,{'rule':rule})
        for l in difflib.unified_diff(ra.report().splitlines(), rb.report().splitlines(), lineterm='', n=0): print(rule, l)
        print(rule,'dump equal', ra.dump()==rb.dump(), 'json equal', ra.json()==rb.json())
