# C19 prototype: inject KeyboardInterrupt at k-th line event inside droop package code during E.count()
import sys, io, contextlib, collections, json
sys.path.insert(0,'/repo'); sys.dont_write_bytecode=True
from droop.profile import ElectionProfile
from droop.election import Election
from drv import mkblt, RULES
blt=mkblt(4,2,[(3,[1,2]),(2,[2,3]),(2,[3]),(1,[4,1]),(1,[2,1,4])],tie=[3,1,2,4])
def count_events(rule):
    n=[0]
    def tr(frame,event,arg):
        if '/repo/droop' in frame.f_code.co_filename:
            if event=='line': n[0]+=1
            return tr
        return None
    E=Election(ElectionProfile(data=blt),{'rule':rule})
    sys.settrace(tr)
    try:
        with contextlib.redirect_stdout(io.StringIO()): E.count()
    finally: sys.settrace(None)
    return n[0], E
def interrupted(rule,k):
    n=[0]
    def tr(frame,event,arg):
        if '/repo/droop' in frame.f_code.co_filename:
            if event=='line':
                n[0]+=1
                if n[0]==k: raise KeyboardInterrupt()
            return tr
        return None
    E=Election(ElectionProfile(data=blt),{'rule':rule})
    intr=False
    sys.settrace(tr)
    try:
        with contextlib.redirect_stdout(io.StringIO()): E.count()
    except KeyboardInterrupt: intr=True
    finally: sys.settrace(None)
    return E,intr
res=collections.Counter(); firsts={}
for rule in RULES:
    K,E0=count_events(rule)
    full=[(a['tag'],a['msg']) for a in E0.record()['actions']]
    fulljson=json.loads(E0.json())['actions']
    step=max(1,K//400)
    ks=list(range(1,min(K,120)))+list(range(120,K+1,step))
    for k in ks:
        E,intr=interrupted(rule,k)
        if not intr: res[(rule,'nointr')]+=1; continue
        for f in ('report','dump','json'):
            try:
                out=getattr(E,f)(True)
                acts=[(a['tag'],a['msg']) for a in E.record()['actions']]
                mark=acts[-1]==('log','** count interrupted; this round is incomplete **')
                pre=acts[:-1] if mark else acts
                ok=pre==full[:len(pre)]
                if f=='json':
                    ja=json.loads(out)['actions'][:-1]
                    ok = ok and ja==fulljson[:len(ja)]
                if f=='report' and 'terminated prematurely' not in out: ok=False
                res[(rule,f,'ok' if (ok and mark) else 'BAD')]+=1
                if not (ok and mark): firsts.setdefault((rule,f,'BAD'),k)
            except Exception as e:
                res[(rule,f,type(e).__name__)]+=1; firsts.setdefault((rule,f,type(e).__name__),(k,str(e)))
    print(rule,K,flush=True)
for k,v in sorted(res.items()): print(v,k)
print(firsts)
