import sys, random, collections, signal, traceback
sys.path.insert(0,'/repo'); sys.dont_write_bytecode=True
from droop.profile import ElectionProfile, ElectionProfileError
from droop.election import Election
from droop.common import UsageError, ElectionError
RULES=['wigm','wigm-prf','wigm-prf-batch','cfer','cfer-batch','scotland','mpls','meek','warren','meek-prf','qpq']
class TO(Exception): pass
def _a(s,f): raise TO()
signal.signal(signal.SIGALRM,_a)
def tryparse(text):
    signal.alarm(5)
    try:
        p=ElectionProfile(data=text); return ('ok',p)
    except ElectionProfileError as e: return ('perr',str(e)[:40])
    except TO: return ('TIMEOUT',None)
    except Exception as e:
        tb=traceback.extract_tb(sys.exc_info()[2])[-1]
        return ('CRASH:%s@%s:%d'%(type(e).__name__,tb.filename.split('/')[-1],tb.lineno),str(e)[:60])
    finally: signal.alarm(0)
def valid(p):
    bad=[]
    allr=[list(b.ranking) for b in p.ballotLines]+[[c for r in b.ranking for c in r] for b in p.ballotLinesEqual]
    for r in allr:
        if len(set(r))!=len(r): bad.append('dup')
        if any(c in p.withdrawn for c in r): bad.append('withdrawn-in-ranking')
        if any(not (1<=c<=p.nCand) for c in r): bad.append('range')
    if p.nSeats>len(p.eligible): bad.append('seats')
    if p.nBallots<len(p.eligible): bad.append('ballots')
    if p.nBallots!=sum(b.multiplier for b in p.ballotLines+p.ballotLinesEqual if b.ranking): bad.append('nBallots')
    if any(not(1<=c<=p.nCand) for c in p.withdrawn|p.undeclared): bad.append('wd-range')
    return bad
def ctor(p):
    out=[]
    for r in RULES:
        try: Election(p,{'rule':r})
        except Exception as e: out.append((r,type(e).__name__))
    return out
BASES=['3 2 4 1 2 0 3 2 3 0 2 3 0 0 "A" "B" "C" "title"',
 '4 2 [nick a b c d] [tie d c b a] -2 3 a b 0 2 b=c d 0 (x) c 0 1 d a 0 0 "A A" "B" "C # x" "D /* y */" "t t" "src" "cmt"',
 '3 1 [withdrawn 3] [undeclared 2] [droop rule=meek omega=4] /* c /* n */ c */ 2 1 2 0 # eol\n2 2 1 0 1 3 0 0 "A" "B" "C" "t"',
 '2 1 (b1) 1 0 (b2) 2 1 0 0 "A" "B" "t"']
ALPHA=['0','1','2','3','4','-1','-2','-9','=','1=2','2=2','(',')','(a)','[',']','[tie','[nick','[droop','[withdrawn','[undeclared','[x]','tie]','"','"A"','"A','B"','#','/*','*/','/**/','x','1]','a','00','007','﻿3','٣','1=','=1','-0','+1','1.5','(a','b)']
if __name__=='__main__':
    rng=random.Random(int(sys.argv[1]) if len(sys.argv)>1 else 1)
    N=int(sys.argv[2]) if len(sys.argv)>2 else 20000
    res=collections.Counter(); ex={}
    def note(k,text):
        res[k]+=1; ex.setdefault(k,text)
    def one(text):
        k,v=tryparse(text)
        if k=='ok':
            b=valid(v)
            if b: note(('INVALID',tuple(sorted(set(b)))),text)
            elif not v.options:
                c=ctor(v)
                if c: note(('CTOR',tuple(sorted(set(x[1] for x in c)))),text)
                else: note('ok',text)
            else: note('ok+opts',text)
        elif k=='perr': note('perr',text)
        else: note(k,text)
    for base in BASES:
        toks=base.split(' ')
        for i in range(len(toks)+1): one(' '.join(toks[:i]))           # truncations
        for i in range(len(toks)):
            one(' '.join(toks[:i]+toks[i+1:]))                           # deletions
            for a in ALPHA:
                one(' '.join(toks[:i]+[a]+toks[i+1:]))                   # substitutions
                one(' '.join(toks[:i]+[a]+toks[i:]))                     # insertions
    for _ in range(N):                                                    # token soups
        n=rng.randint(1,14); one(' '.join(rng.choice(ALPHA) for _ in range(n)))
    for _ in range(N//4):                                                 # arbitrary unicode
        n=rng.randint(0,30); one(''.join(chr(rng.choice([rng.randint(1,127),rng.randint(128,0x2fff),0x2028,0x85,0x1c,0x0b,0x22,0x23,0x5b,0x28,0x30,0x31,0x20])) for _ in range(n)))
    for k,v in sorted(res.items(),key=str): print(v,k)
    print('---examples')
    for k,v in ex.items():
        if k not in('ok','perr','ok+opts'): print(k,repr(v)[:200])
