SPECIFICATION Spec
CONSTANTS NC = 4
 NB = 4
 SEATS = 2
 P = 4
INVARIANT Conserve
INVARIANT Tally
INVARIANT Seats
CHECK_DEADLOCK FALSE
