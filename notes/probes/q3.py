from q1 import run
if __name__=='__main__':
    E=run('4 2 5 1 0 4 2 0 3 3 0 1 4 0 0 "A" "B" "C" "D" "t"',{'rule':'mpls'})
    for a in E.record()['actions']:
        if a['tag']=='log': continue
        print(a['round'],a['tag'],a['msg'],{k:str(v.get('vote')) for k,v in a['cstate'].items()},'nt',a['nt_votes'])
