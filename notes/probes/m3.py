# C04 / C06 / C07 prototypes for Gregory family
import sys, random, collections
from drv import *
from fractions import Fraction as F
rng=random.Random(int(sys.argv[1]) if len(sys.argv)>1 else 1)
N=int(sys.argv[2]) if len(sys.argv)>2 else 300
ARITHS={'wigm':[{}, {'arithmetic':'fixed','precision':2},{'arithmetic':'integer'},{'arithmetic':'rational'},{'arithmetic':'guarded','precision':3,'guard':2},{'arithmetic':'fixed','precision':1,'integer_quota':True}]}
fails=collections.Counter(); ex={}
def fail(k,info):
    fails[k]+=1
    ex.setdefault(k,info)
tot=0
for i in range(N):
    pr=randprofile(rng, maxc=6, maxlines=8, maxm=3, wd=True, und=True)
    blt=mkblt(**pr)
    lines=[(m,[c for c in r if c not in pr['withdrawn']]) for m,r in pr['lines']]
    lines=[(m,r) for m,r in lines if r]
    for rule in GREG:
        for ar in ARITHS.get(rule,[{}]):
            opts=dict(rule=rule, **ar)
            r=run(blt,opts); tot+=1
            if r['exc']: continue
            E=r['E']; S=scale(E); n=E.nBallots; s=E.nSeats
            exact=E.V.exact
            geps=(max(10**E.V.guard//2,1) if E.V.name=='guarded' else (0 if E.V.name=='rational' else 1))
            def LT(x,y): return (y-x)>=geps if geps else x<y
            und=set(pr['undeclared']) if rule=='mpls' else set()
            def holds(a,c): return a['vote'][c] > a['quota'] if exact and E.V.name=='rational' else (a['vote'][c] >= a['quota'] if not exact else a['vote'][c]>a['quota'])
            acts=r['acts']
            # quota
            q=acts[0]['quota']
            if rule in('scotland','mpls') or ar.get('integer_quota'): want=(n//(s+1)+1)*(S or 1)
            elif E.V.name=='rational': want=F(n,s+1)
            elif exact: want=n*S//(s+1)   # guarded: floor at p+g digits, no eps
            else: want=n*S//(s+1)+1
            if q!=want: fail(('C04quota',rule,str(ar)),(blt,opts,q,want))
            everheld=set(); moved=set(); firstunpend=True
            for k,a in enumerate(acts):
                hop=[c for c in a['st'] if a['st'][c]=='hopeful']
                if a['tag']=='transfer':
                    nm=a['msg'].split(': ',1)[1]
                    nm=nm.split(' (')[0]
                    for x in nm.split(', '): moved.add(int(x[1:]))
                if a['tag']=='round': firstunpend=True
                final_def = a['tag']=='defeat' and 'emaining' in a['msg']
                # (i)
                if a['tag']=='defeat' and not final_def and a['subj'] not in und:
                    if holds(a,a['subj']): fail(('C04i',rule),(blt,opts,k))
                # (ii)
                skip = rule.startswith('cfer') and a['tag']=='unpend' and not firstunpend
                if a['tag']=='unpend': firstunpend=False
                if a['tag'] in ('unpend','tie','defeat','end') and not (rule=='mpls' and a['tag']!='end') and not skip:
                    for c in hop:
                        if c not in und and holds(a,c): fail(('C04ii',rule,a['tag'],a['msg'][:20]),(blt,opts,k,c))
                if a['tag'] in ('begin','round','transfer','count'):
                    for c in hop:
                        if c not in und and holds(a,c): everheld.add(c)
                # C06(1)
                for c in a['st']:
                    if a['st'][c]=='hopeful' or a['pend'][c]:
                        tl=sum(w*lines[j][0] for j,(ix,w) in enumerate(a['bal']) if ix<len(lines[j][1]) and lines[j][1][ix]==c)
                        if tl!=a['vote'][c]: fail(('C06tally',rule,a['tag']),(blt,opts,k,c,tl,a['vote'][c]))
                # C06(2)
                for j,(ix,w) in enumerate(a['bal']):
                    for c in lines[j][1][:ix]:
                        if a['st'][c]=='hopeful': fail(('C06skip',rule,a['tag']),(blt,opts,k,j))
                    if ix<len(lines[j][1]):
                        t=lines[j][1][ix]
                        if t in moved: fail(('C06top',rule,a['tag'],a['msg'][:18]),(blt,opts,k,j,t))
                    if w<0 or w>(S or 1): fail(('C06range',rule),())
                if k>0:
                    p=acts[k-1]
                    for j,(ix,w) in enumerate(a['bal']):
                        if w>p['bal'][j][1]: fail(('C06inc',rule),())
                    # surplus transfer
                    if a['tag']=='transfer' and 'urplus' in a['msg']:
                        c=a['subj'] if a['subj'] else None
                # C07(a)
                if a['tag']=='defeat' and not final_def and a['subj'] not in und:
                    # batch?
                    j=k
                    D=[]
                    # collect run of defeats containing k
                    lo=k
                    while lo>0 and acts[lo-1]['tag']=='defeat': lo-=1
                    hi=k
                    while hi+1<len(acts) and acts[hi+1]['tag']=='defeat': hi+=1
                    D=[acts[x]['subj'] for x in range(lo,hi+1)]
                    last=acts[hi]
                    rem=[c for c in last['st'] if last['st'][c]=='hopeful']
                    if len(D)==1:
                        c=D[0]
                        if any(LT(a['vote'][h],a['vote'][c]) for h in rem): fail(('C07low',rule),(blt,opts,k))
                    elif k==lo:
                        sur=sum(a['vote'][p]-a['quota'] for p in a['st'] if a['pend'][p])
                        Dd=[d for d in D if d not in und]
                        tv=sum(a['vote'][d] for d in set(Dd))
                        if rem and not all(tv+sur < a['vote'][h] for h in rem): fail(('C07batch',rule),(blt,opts,k,D))
                        ne=sum(1 for c in last['st'] if last['st'][c]=='elected')
                        electable=len([c for c in last['st'] if last['st'][c]!='withdrawn' and c not in und])
                        if len(rem)+ne < min(s,electable): fail(('C07few',rule),(blt,opts,k,D))
                # C07(c) largest surplus first
                if (a['tag']=='unpend' and rule!='cfer' and rule!='cfer-batch') :
                    c=a['subj']; 
                    if any(LT(a['vote'][c],a['vote'][p]) for p in a['st'] if a['pend'][p]): fail(('C07high',rule),(blt,opts,k))
            last=acts[-1]
            for c in everheld:
                if last['st'][c]!='elected': fail(('C04iii',rule),(blt,opts,c))
print(tot,'runs')
for k,v in sorted(fails.items(), key=str): print(v,k)
import pprint
for k in list(ex)[:8]: print(k); pprint.pprint(ex[k])
