import sys, io, contextlib
sys.path.insert(0,'/repo'); sys.dont_write_bytecode=True
from droop.profile import ElectionProfile
from droop.election import Election
def run(blt, opts):
    E=Election(ElectionProfile(data=blt), opts)
    with contextlib.redirect_stdout(io.StringIO()): E.count()
    return E
if __name__=='__main__':
    blt='3 1 1 1=2=3 0 1 2 0 1 3 0 0 "A" "B" "C" "t"'
    for o in (dict(rule='meek',arithmetic='fixed',precision=4), dict(rule='meek',arithmetic='rational',omega=3), dict(rule='warren'), dict(rule='meek')):
        E=run(blt,o)
        for a in E.record()['actions']:
            if a['tag'] in('begin','iterate','end'):
                print(o, a['tag'], 'votes',a['votes'],'res',a['residual'],'tot',a['votes']+a['residual'])
    # C10 minDiff
    a='3 1\n4 1 2 0\n2 2 0\n1 3 2 1 0\n0\n"n1" "n2" "n3"\n"t"\n'
    b='3 1\n2 1 2 0\n2 1 2 0\n1 2 0\n1 2 0\n1 3 2 1 0\n0\n"n1" "n2" "n3"\n"t"\n'
    ra=run(a,{'rule':'wigm'}); rb=run(b,{'rule':'wigm'})
    import difflib
    for l in difflib.unified_diff(ra.report().splitlines(), rb.report().splitlines(), lineterm='', n=0): print(l)
    print('dump equal', ra.dump()==rb.dump(), 'json equal', ra.json()==rb.json())
