# C08 / C04 / C07 prototypes for Meek family, QPQ invariants
import sys, random, collections
from drv import *
from fractions import Fraction as F
rng=random.Random(int(sys.argv[1]) if len(sys.argv)>1 else 1)
N=int(sys.argv[2]) if len(sys.argv)>2 else 200
ARITHS={'meek':[{}, {'arithmetic':'fixed','precision':3},{'arithmetic':'fixed','precision':2,'omega':1},{'arithmetic':'fixed','precision':6,'defeat_batch':'none'},{'arithmetic':'guarded','precision':4,'guard':2},{'arithmetic':'guarded','precision':4,'guard':0}],
        'warren':[{}, {'arithmetic':'fixed','precision':3},{'arithmetic':'fixed','precision':5,'omega':2}]}
fails=collections.Counter(); ex={}; seen=collections.Counter()
def fail(k,info):
    fails[k]+=1; ex.setdefault(k,info)
tot=0
for i in range(N):
    pr=randprofile(rng, maxc=6, maxlines=8, maxm=3, wd=True, und=False)
    blt=mkblt(**pr)
    for rule in MEEK+['qpq']:
        for ar in ARITHS.get(rule,[{}]):
            opts=dict(rule=rule, **ar)
            r=run(blt,opts,budget=10); tot+=1
            if r['exc']: fail(('EXC',rule,r['exc'][:30]),(blt,opts)); continue
            E=r['E']; S=scale(E); n=E.nBallots; s=E.nSeats; V=E.V
            exact=V.exact
            geps=(max(10**V.guard//2,1) if V.name=='guarded' else 1)
            def LT(x,y): return (y-x)>=geps
            acts=r['acts']; logs=dict()
            for (k,m) in r['logs']: logs.setdefault(k,[]).append(m)
            if rule in MEEK:
                omega=E.rule.omega._value
                lastiter=None
                for k,a in enumerate(acts):
                    post = (a['tag'] in ('iterate','end')) if rule!='meek-prf' else (a['tag'] in ('begin','tie','end') or (a['tag']=='elect' and 'emaining' not in a['msg']) or (a['tag']=='defeat' and 'emaining' not in a['msg']))
                    tot_=sum(v for v in a['vote'].values() if v is not None)+a['residual']
                    if post:
                        seen[('post',rule,a['tag'])]+=1
                        if tot_!=n*S: fail(('C08sum',rule,a['tag'],a['msg'][:14]),(blt,opts,k,tot_-n*S))
                        for c in a['st']:
                            st=a['st'][c]; kf=a['kf'][c]
                            if st=='withdrawn': continue
                            if a['tag']=='defeat' and c==a['subj']: st='hopeful'
                            if st=='hopeful' and kf!=S: fail(('C08kfH',rule,a['tag']),(blt,opts,k,c))
                            if st=='defeated' and kf!=0: fail(('C08kfD',rule,a['tag'],a['msg'][:14]),(blt,opts,k,c))
                            if st=='elected' and not (0<kf<=S): fail(('C08kfE',rule,a['tag']),(blt,opts,k,c,kf))
                        if a['residual']<0: fail(('C08negres',rule),())
                        # quota recompute
                        if a['tag']!='end' and a['tag']!='begin':
                            want = a['votes']*S//((s+1)*S) if exact else a['votes']*S//((s+1)*S)+1
                            if a['quota']!=want: fail(('C04q',rule,a['tag']),(blt,opts,k,a['quota'],want))
                        if a['tag']=='begin':
                            want = n*S//(s+1) + (0 if exact else 1)
                            if a['quota']!=want: fail(('C04q0',rule),(blt,opts,a['quota'],want))
                        # no hopeful holds quota
                        if a['tag'] in ('iterate','defeat','tie','end'):
                            for c in a['st']:
                                if a['st'][c]=='hopeful':
                                    h = LT(a['quota'],a['vote'][c]) if exact else a['vote'][c]>=a['quota']
                                    if h: fail(('C04ii',rule,a['tag'],a['msg'][:16]),(blt,opts,k,c))
                    if a['tag']=='iterate':
                        lastiter=(k,a)
                        st=a['msg']
                        if 'omega' in st and LT(omega,a['surplus']): fail(('C08omega',rule),(blt,opts,k))
                        if 'stable' in st and not any('Stable' in m for m in logs.get(k,[])): fail(('C08stable',rule),(blt,opts,k))
                    if a['tag']=='defeat' and 'emaining' not in a['msg']:
                        if rule!='meek-prf':
                            # preceded by iterate with omega/stable/batch in this round
                            j=k-1
                            while j>=0 and acts[j]['tag'] in ('tie','defeat'): j-=1
                            if acts[j]['tag']!='iterate' or 'elected' in acts[j]['msg'] or acts[j]['round']!=a['round']: fail(('C08order',rule),(blt,opts,k))
                            base=acts[j]
                        else:
                            if not LT(a['surplus'],omega) and 'stable' not in a['msg']: fail(('C08omega',rule),(blt,opts,k))
                            base=a
                        # C07 low within surplus (single) / batch
                        lo=k
                        while lo>0 and acts[lo-1]['tag']=='defeat': lo-=1
                        hi=k
                        while hi+1<len(acts) and acts[hi+1]['tag']=='defeat' and 'emaining' not in acts[hi+1]['msg']: hi+=1
                        D=[acts[x]['subj'] for x in range(lo,hi+1)]
                        hopb=[c for c in base['st'] if base['st'][c]=='hopeful' or c in D]
                        rem=[c for c in hopb if c not in D]
                        sur=base['surplus']
                        seen[('defeat',rule,'certain' in a['msg'])]+=1
                        if 'certain' not in a['msg']:
                            c=a['subj']; mn=min(base['vote'][h] for h in hopb)
                            if LT(mn+sur, base['vote'][c]): fail(('C07low',rule),(blt,opts,k))
                        elif k==lo:
                            tv=sum(base['vote'][d] for d in D)
                            if rem and not all(LT(tv+sur,base['vote'][h]) for h in rem): fail(('C07batch',rule),(blt,opts,k,D))
            if rule=='qpq':
                lines=[(m,[c for c in rr if c not in pr['withdrawn']]) for m,rr in pr['lines']]
                lines=[(m,rr) for m,rr in lines if rr]
                remaining=False
                for k,a in enumerate(acts):
                    if 'emaining' in a['msg']: remaining=True
                    ne=sum(1 for c in a['st'] if a['st'][c]=='elected')
                    sw=sum(w*lines[j][0] for j,(ix,w) in enumerate(a['bal']))
                    if a['tag'] in ('begin','round','transfer') and not remaining:
                        if abs(sw-ne*S)>=geps: fail(('C02qpq',a['tag'],a['msg'][:14]),(blt,opts,k,sw,ne))
                    if a['tag'] in ('tie','defeat','end') and not remaining and a['tag']!='end':
                        if abs(sw-ne*S)>=geps: fail(('C02qpq2',a['tag'],a['msg'][:14]),(blt,opts,k,sw,ne))
                    # quota
                    if a['tag'] not in ('begin',) and a['va'] is not None and not remaining and a['tag']!='end':
                        want=a['va']*S//((1+s)*S-a['tx'])
                        if a['quota']!=want: fail(('C04qpq',a['tag']),(blt,opts,k,a['quota'],want))
                    if a['tag']=='defeat' and not remaining:
                        c=a['subj']; seen['qpqdefeat']+=1
                        if LT(a['quota'],a['quot'][c]): fail(('C04i-qpq',),(blt,opts,k))
                        hop=[h for h in a['st'] if a['st'][h]=='hopeful']
                        if any(LT(a['quot'][h],a['quot'][c]) for h in hop): fail(('C07low-qpq',),(blt,opts,k))
                        if any(LT(a['quota'],a['quot'][h]) for h in hop): fail(('C04ii-qpq',),(blt,opts,k))
                    if a['tag']=='defeat' and remaining:
                        c=a['subj']
                        if LT(a['quota'],a['quot'][c]): fail(('C04rem-qpq',),(blt,opts,k))
print(tot,'runs'); print(sorted(seen.items(),key=str))
for k,v in sorted(fails.items(), key=str): print(v,k)
import pprint
for k in list(ex)[:6]: print(k); pprint.pprint(ex[k])
