import sys, io, contextlib, collections, random, json, re
sys.path.insert(0,'/repo'); sys.dont_write_bytecode=True
from droop.profile import ElectionProfile
from droop.election import Election
RULES=['wigm','wigm-prf','wigm-prf-batch','cfer','cfer-batch','scotland','mpls','meek','warren','meek-prf','qpq']
def randblt(rng):
    nc=rng.randint(2,6); seats=rng.randint(1,nc-1) if nc>1 else 1
    lines=[]
    for _ in range(rng.randint(nc,nc+8)):
        k=rng.randint(1,nc); lines.append('%d %s 0'%(rng.randint(1,4),' '.join(map(str,rng.sample(range(1,nc+1),k)))))
    names=' '.join('"n%d"'%i for i in range(1,nc+1))
    return '%d %d %s 0 %s "t"'%(nc,seats,' '.join(lines),names), nc
if __name__=='__main__':
    rng=random.Random(5); bad=collections.Counter(); ex={}; n=0
    def fail(k,i): bad[k]+=1; ex.setdefault(k,i)
    for it in range(400):
        blt,nc=randblt(rng)
        for rule in RULES:
            opts={'rule':rule}
            if rule in('wigm','meek','warren') and rng.random()<0.5: opts.update(arithmetic='fixed',precision=rng.choice([2,4]))
            E=Election(ElectionProfile(data=blt),opts)
            try:
                with contextlib.redirect_stdout(io.StringIO()): E.count()
            except AssertionError: continue
            n+=1
            rec=E.record(); acts=rec['actions']
            # JSON valid + equals record stringified
            J=json.loads(E.json())
            if len(J['actions'])!=len(acts): fail(('json-len',rule),blt)
            for a,ja in zip(acts,J['actions']):
                if a['tag']!=ja['tag'] or a['msg']!=ja['msg']: fail(('json-tag',rule),blt)
                if a['tag']=='log': continue
                if str(a['quota'])!=ja['quota']: fail(('json-quota',rule),blt)
                for cid,cs in a['cstate'].items():
                    jc=ja['cstate'][str(cid)]
                    if cs['state']!=jc['state'] or ('vote' in cs and str(cs['vote'])!=jc['vote']): fail(('json-cstate',rule),blt)
            # dump
            rows=[r.split('\t') for r in E.dump().splitlines()]
            hdr=rows[0]; body=rows[1:]
            if len(body)!=len(acts): fail(('dump-len',rule),(blt,len(body),len(acts)))
            ecids=rec['ecids']
            for a,r in zip(acts,body):
                if a['tag'] in ('round','log','iterate'):
                    if len(r)!=3: fail(('dump-msgcols',rule,a['tag']),(blt,r))
                    continue
                if len(r)!=len(hdr): fail(('dump-cols',rule,a['tag']),(blt,len(r),len(hdr)))
                if r[1]!=a['tag'] or r[2]!=str(a['quota']): fail(('dump-quota',rule),blt)
                # find per-cid state code + vote
                for cid in ecids:
                    i=hdr.index('%s.state'%cid)
                    if r[i]!=a['cstate'][cid]['code']: fail(('dump-code',rule),blt)
                    j=hdr.index('%s.vote'%cid) if '%s.vote'%cid in hdr else None
                    if j is not None and r[j]!=str(a['cstate'][cid]['vote']): fail(('dump-vote',rule),blt)
            # report: each Action block lists every eligible candidate exactly once with the right state & vote (non-qpq)
            rep=E.report()
            blocks=re.split(r'(?m)^Action: ',rep)[1:]
            shown=[a for a in acts if a['tag'] not in('log','round')]
            if len(blocks)!=len(shown): fail(('report-blocks',rule),(blt,len(blocks),len(shown)))
            for a,b in zip(shown,blocks):
                if not b.startswith(a['msg']): fail(('report-msg',rule),blt)
                if a['tag'] in ('tie','unpend','iterate') and rule!='qpq': continue
                if rule=='qpq' and a['tag']=='tie': continue
                cd=rec['cdict']
                for cid in ecids:
                    cs=a['cstate'][cid]; nm=cd[cid]['name']
                    val=str(cs['quotient']) if rule=='qpq' else str(cs['vote'])
                    lab={'elected':'Pending' if cs.get('pending') else 'Elected','hopeful':'Hopeful','defeated':'Defeated'}[cs['state']]
                    pat1='\t%s:  %s (%s)\n'%(lab,nm,val) if lab!='Defeated' else '\tDefeated: %s (%s)\n'%(nm,val)
                    ok = pat1 in b
                    if not ok and lab=='Defeated':  # zero-vote defeated are grouped
                        m=re.search(r'\tDefeated: ([^\n]*) \(([^)]*)\)\n',b)
                        ok = any(nm in mm.group(1).split(', ') and mm.group(2)==val for mm in re.finditer(r'\tDefeated: ([^\n]*) \(([^)]*)\)\n',b))
                    if not ok: fail(('report-cand',rule,a['tag'],lab),(blt,nm,val,b[:300]))
            if set(c.cid for c in E.elected)!={cid for cid,cs in acts[-1]['cstate'].items() if cs['state']=='elected'}: fail(('final',rule),blt)
    print(n,'counts')
    for k,v in sorted(bad.items(),key=str): print('BAD',v,k,str(ex[k])[:400])
