import sys, io, random, contextlib, signal, json
sys.path.insert(0,'/repo'); sys.dont_write_bytecode=True
from droop.profile import ElectionProfile, ElectionProfileError
from droop.election import Election
from droop.candidate import Candidate
from fractions import Fraction

RULES=['wigm','wigm-prf','wigm-prf-batch','cfer','cfer-batch','scotland','mpls','meek','warren','meek-prf','qpq']
GREG=['wigm','wigm-prf','wigm-prf-batch','cfer','cfer-batch','scotland','mpls']
MEEK=['meek','warren','meek-prf']

def mkblt(nc, seats, lines, tie=None, withdrawn=(), undeclared=(), names=None, opts=None):
    s='%d %d\n'%(nc,seats)
    if tie: s+='[tie %s]\n'%' '.join(map(str,tie))
    if withdrawn: s+='[withdrawn %s]\n'%' '.join(map(str,withdrawn))
    if undeclared: s+='[undeclared %s]\n'%' '.join(map(str,undeclared))
    if opts: s+='[droop %s]\n'%' '.join(opts)
    for m,r in lines: s+='%d %s 0\n'%(m,' '.join(map(str,r)))
    s+='0\n'
    names=names or ['c%d'%i for i in range(1,nc+1)]
    s+=' '.join('"%s"'%n for n in names)+'\n"t"\n'
    return s

def randprofile(rng, maxc=7, maxlines=12, maxm=4, wd=False, und=False, full=False):
    nc=rng.randint(2,maxc)
    withdrawn=[c for c in range(1,nc+1) if wd and rng.random()<0.15]
    if len(withdrawn)>=nc-1: withdrawn=[]
    elig=[c for c in range(1,nc+1) if c not in withdrawn]
    undeclared=[c for c in elig if und and rng.random()<0.2]
    seats=rng.randint(1,len(elig))
    lines=[]
    while True:
        for _ in range(rng.randint(1,maxlines)):
            k=nc if full else rng.randint(1,nc)
            lines.append((rng.randint(1,maxm), rng.sample(range(1,nc+1),k)))
        nb=sum(m for m,r in lines if any(c not in withdrawn for c in r))
        if nb>=len(elig): break
    tie=list(range(1,nc+1)); rng.shuffle(tie)
    return dict(nc=nc,seats=seats,lines=lines,tie=tie,withdrawn=withdrawn,undeclared=undeclared)

class Timeout(Exception): pass
def _alarm(sig,frm): raise Timeout()
signal.signal(signal.SIGALRM,_alarm)

def val(v):
    if v is None: return None
    if hasattr(v,'_value'): return v._value
    return Fraction(v)

def run(blt, opts, budget=5):
    "returns dict(exc=..., E=..., acts=[...]) acts: list of obs dicts for non-log actions"
    out=dict(exc=None,E=None,acts=[],logs=[])
    try:
        p=ElectionProfile(data=blt)
        E=Election(p, dict(opts)); out['E']=E
        orig=E.logAction
        subj=[None]
        def la(tag,msg):
            orig(tag,msg)
            A=E.erecord['actions'][-1]
            if tag=='log': out['logs'].append((len(out['acts']),msg)); return
            o=dict(tag=tag,msg=msg,round=A['round'],quota=val(A['quota']),votes=val(A['votes']),
                   st={c:A['cstate'][c]['state'] for c in A['cstate']},
                   pend={c:bool(A['cstate'][c].get('pending')) for c in A['cstate']},
                   vote={c:val(A['cstate'][c].get('vote')) for c in A['cstate']},
                   kf={c:val(A['cstate'][c].get('kf')) for c in A['cstate']},
                   quot={c:val(A['cstate'][c].get('quotient')) for c in A['cstate']},
                   nt=val(A.get('nt_votes')), residual=val(A.get('residual')), surplus=val(A.get('surplus')),
                   bal=[(b.index, val(b.weight)) for b in E.ballots], subj=subj[0],
                   va=val(getattr(E,'va',None)), tx=val(getattr(E,'tx',None)))
            subj[0]=None
            out['acts'].append(o)
        E.logAction=la
        for nm in ('elect','defeat','unpend'):
            def mk(nm):
                f=getattr(Candidate,nm)
                def w(self,*a,**k):
                    subj[0]=self.cid
                    return f(self,*a,**k)
                return w
        # instance-level subject capture: patch per candidate
        for c in E.C:
            for nm in ('elect','defeat','unpend'):
                def mk(c,nm):
                    f=getattr(c,nm)
                    def w(*a,**k):
                        subj[0]=c.cid
                        return f(*a,**k)
                    return w
                setattr(c,nm,mk(c,nm))
        signal.alarm(budget)
        with contextlib.redirect_stdout(io.StringIO()):
            E.count()
        signal.alarm(0)
    except Timeout:
        out['exc']='Timeout'
    except Exception as e:
        signal.alarm(0)
        out['exc']=type(e).__name__+': '+str(e)
    return out

def scale(E):
    V=E.V
    if V.name=='rational': return None
    if V.name=='guarded': return 10**(V.precision+V.guard)
    return 10**V.precision
