# C13 b,c ; C18 listing ; C17 immunity
import sys, random, collections, re
from drv import *
from fractions import Fraction as F
rng=random.Random(int(sys.argv[1]) if len(sys.argv)>1 else 1)
N=int(sys.argv[2]) if len(sys.argv)>2 else 100
fails=collections.Counter(); ex={}; seen=collections.Counter()
def fail(k,info): fails[k]+=1; ex.setdefault(k,info)
def hist(r):
    return [(a['tag'], a['msg'], a['round'], a['quota'], tuple(sorted((c,a['st'][c],a['pend'][c],a['vote'][c],a['kf'][c],a['quot'][c]) for c in a['st'])), a['nt'], a['residual']) for a in r['acts']]
STAT=['scotland','mpls','wigm-prf','wigm-prf-batch','meek-prf','cfer','cfer-batch','qpq']
for i in range(N):
    pr=randprofile(rng, maxc=5, maxlines=6, maxm=3, wd=True, und=True)
    blt=mkblt(**pr)
    # C13b
    for rule in ('wigm','meek','warren'):
        for p in (2,4):
            rf=run(blt,dict(rule=rule,arithmetic='fixed',precision=p),budget=10)
            rg=run(blt,dict(rule=rule,arithmetic='guarded',precision=p,guard=0),budget=10)
            if rf['exc'] or rg['exc']: seen['exc']+=1; continue
            seen['13b']+=1
            if hist(rf)!=hist(rg): fail(('C13b',rule,p),(blt,))
            elif rf['E'].dump()!=rg['E'].dump(): fail(('C13b-dump',rule,p),(blt,))
    # C13c
    for rule in ('wigm','meek','warren'):
        for (p,g) in ((6,4),(9,9)):
            og=dict(rule=rule,arithmetic='guarded',precision=p,guard=g); orr=dict(rule=rule,arithmetic='rational')
            if rule!='wigm': og['omega']=3; orr['omega']=3
            rg=run(blt,og,budget=10); rr=run(blt,orr,budget=10)
            if rg['exc'] or rr['exc']: seen['exc13c',rule,(rg['exc'] or rr['exc'])[:12]]+=1; continue
            rep=rg['E'].record().get('arithmetic_report','')
            mx=int(re.search(r'maxDiff: (\d+)',rep).group(1)); mn=int(re.search(r'minDiff: (\d+)',rep).group(1)); geps=10**g//2
            if not (mx*1000<geps and mn>geps*1000): seen['13c-vacuous']+=1; continue
            seen['13c']+=1
            S=10**(p+g); unit=10**g
            ok=len(rg['acts'])==len(rr['acts'])
            if ok:
                for a,b in zip(rg['acts'],rr['acts']):
                    if (a['tag'],a['subj'],a['st'],a['pend'])!=(b['tag'],b['subj'],b['st'],b['pend']): ok=False; break
                    for c in a['vote']:
                        if a['vote'][c] is None: continue
                        if abs(F(a['vote'][c],S)-b['vote'][c])>F(unit,S): ok=False
                    if abs(F(a['quota'],S)-b['quota'])>F(unit,S): ok=False
            if not ok: fail(('C13c',rule,(p,g)),(blt,og))
    # C18 listing
    for rule in RULES:
        r=run(blt,{'rule':rule},budget=10)
        if r['exc']: continue
        prev=None; afterdefeat=False
        for k,a in enumerate(r['acts']):
            if prev:
                ch={c for c in a['st'] if (a['st'][c],a['pend'][c])!=(prev['st'][c],prev['pend'][c])}
                chs={c for c in a['st'] if a['st'][c]!=prev['st'][c]}
                if a['tag'] in ('elect','defeat'):
                    if a['subj'] not in ch: fail(('C18nochange',rule,a['msg'][:22]),(blt,k))
                    if chs-{a['subj']}: fail(('C18extra',rule),(blt,k))
                    nm=a['msg'].rsplit(': ',1)[1]
                    if nm!='c%d'%a['subj']: fail(('C18name',rule),(blt,k))
                elif a['tag']=='unpend':
                    if chs: fail(('C18unlisted',rule,a['tag']),(blt,k))
                else:
                    if chs and not (rule=='qpq'): fail(('C18unlisted',rule,a['tag']),(blt,k,chs))
                    if chs and rule=='qpq' and not all(prev['st'][c]=='elected' and a['st'][c]=='hopeful' for c in chs): fail(('C18unlisted-qpq',),(blt,k))
            prev=a
        E=r['E']; last=r['acts'][-1]
        if {c for c in last['st'] if last['st'][c]=='elected'}!={c.cid for c in E.elected}: fail(('C18final',rule),(blt,))
        # dump columns
        rows=[l.split('\t') for l in E.dump().splitlines()]
        for row in rows[1:]:
            if row[1] in ('round','log','iterate'):
                if len(row)!=3: fail(('C18dumpcols3',rule),(blt,row))
            elif len(row)!=len(rows[0]): fail(('C18dumpcols',rule,row[1]),(blt,len(row),len(rows[0])))
        import json
        try: json.loads(E.json())
        except Exception as e: fail(('C18json',rule),(blt,str(e)))
    # C17 immunity
    for rule in STAT:
        r0=run(blt,{'rule':rule},budget=10)
        pert=dict(rule=rule, arithmetic=rng.choice(['rational','guarded','fixed','integer','bogus']), precision=rng.choice([0,2,7,'x']), guard=rng.choice([0,3]), display=rng.choice([0,1,20]), omega=rng.choice([1,12]), defeat_batch=rng.choice(['none','zero','safe']), integer_quota=True)
        b2=blt.replace('\n','\n[droop arithmetic=rational precision=3 omega=2 display=1]\n',1)
        r1=run(b2,pert,budget=10)
        if (r0['exc'] is None)!=(r1['exc'] is None): fail(('C17exc',rule,str(r1['exc'])[:40]),(blt,pert))
        elif not r0['exc']:
            seen['17']+=1
            if hist(r0)!=hist(r1): fail(('C17hist',rule),(blt,pert))
            if r0['E'].dump()!=r1['E'].dump(): fail(('C17dump',rule),(blt,pert))
print(dict(seen))
for k,v in sorted(fails.items(), key=str): print(v,k)
import pprint
for k in list(ex)[:6]: print(k); pprint.pprint(ex[k])
