import sys, io, contextlib, itertools, collections, random
sys.path.insert(0,'/repo'); sys.dont_write_bytecode=True
from droop.profile import ElectionProfile
from droop.election import Election
from droop.common import UsageError
from droop.values import ArithmeticValuesError
RULES=['wigm','wigm-prf','wigm-prf-batch','cfer','cfer-batch','scotland','mpls','meek','warren','meek-prf','qpq']
STAT={'scotland':('fixed',5,None,5),'mpls':('fixed',4,None,4),'wigm-prf':('fixed',4,None,4),'wigm-prf-batch':('fixed',4,None,4),'cfer':('fixed',5,None,5),'cfer-batch':('fixed',5,None,5),'meek-prf':('fixed',9,None,9),'qpq':('guarded',9,9,9)}
DOM={'arithmetic':[None,'fixed','integer','rational','guarded'],'precision':[None,0,2,6],'guard':[None,0,3],'display':[None,1,7],'omega':[None,2],'defeat_batch':[None,'none'],'integer_quota':[None,True]}
def blt(fileopts):
    o=' '.join('%s=%s'%(k,v) for k,v in fileopts.items())
    return '3 2 %s 4 1 2 0 3 2 3 0 2 3 0 1 1 3 0 0 "A" "B" "C" "t"' % ('[droop %s]'%o if o else '')
if __name__=='__main__':
    rng=random.Random(3); bad=collections.Counter(); ex={}; n=0; outcomes=collections.Counter()
    def fail(k,i): bad[k]+=1; ex.setdefault(k,i)
    for rule in RULES:
        for _ in range(700):
            cmd={k:rng.choice(v) for k,v in DOM.items()}; cmd={k:v for k,v in cmd.items() if v is not None and rng.random()<0.6}
            fil={k:rng.choice(v) for k,v in DOM.items()}; fil={k:v for k,v in fil.items() if v is not None and rng.random()<0.4}
            opts=dict(cmd, rule=rule)
            try:
                E=Election(ElectionProfile(data=blt(fil)),dict(opts))
            except (UsageError,ArithmeticValuesError) as e:
                outcomes[(rule,type(e).__name__)]+=1
                if rule in STAT: fail(('stat-rejects',rule),(cmd,fil,str(e)))
                continue
            except Exception as e:
                fail(('ctor-crash',rule,type(e).__name__),(cmd,fil,str(e))); continue
            n+=1; outcomes[(rule,'ok')]+=1
            r=E.options.record()
            for k in set(r['default'])|set(r['cmd'])|set(r['file_options'])|set(r['force']):
                want=r['force'][k] if k in r['force'] else r['cmd'][k] if k in r['cmd'] else r['file_options'][k] if k in r['file_options'] else r['default'].get(k)
                if r['options'].get(k)!=want or E.options.getopt(k)!=want: fail(('prec',rule,k),(cmd,fil,r))
            for k,v in fil.items():
                if str(r['file_options'].get(k))!=str(v): fail(('filelayer',rule,k),(fil,r['file_options']))
            if rule in STAT:
                a,p,g,d=STAT[rule]; V=E.V
                if (V.name,V.precision,getattr(V,'guard',None) if a=='guarded' else None,V.display)!=(a,p,g,d): fail(('statV',rule),(cmd,fil,V.name,V.precision,V.display))
                try:
                    with contextlib.redirect_stdout(io.StringIO()): E.count()
                    E0=Election(ElectionProfile(data=blt({})),{'rule':rule})
                    with contextlib.redirect_stdout(io.StringIO()): E0.count()
                    if E.dump()!=E0.dump(): fail(('immune-dump',rule),(cmd,fil))
                    ra=[l for l in E.report().splitlines() if not l.startswith('\tUnused') and not l.startswith('\tOverridden')]
                    if ra!=E0.report().splitlines(): fail(('immune-report',rule),(cmd,fil))
                except Exception as e: fail(('stat-count-crash',rule,type(e).__name__),(cmd,fil))
    print(n,'constructed'); 
    for k,v in sorted(outcomes.items()): print(v,k)
    for k,v in sorted(bad.items(),key=str): print('BAD',v,k,str(ex[k])[:300])
