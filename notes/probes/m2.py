import sys, random, collections
from drv import *
rng=random.Random(2)
cnt=collections.Counter()
for i in range(1500):
    pr=randprofile(rng, wd=True, und=True)
    blt=mkblt(**pr)
    r=run(blt,{'rule':'mpls'})
    elig=[c for c in range(1,pr['nc']+1) if c not in pr['withdrawn']]
    declared=[c for c in elig if c not in pr['undeclared']]
    if r['exc']:
        cnt[('exc', len(declared)<pr['seats'], r['exc'][:30])]+=1
        if len(declared)>=pr['seats']: print(blt)
    else:
        E=r['E']
        cnt[('ok', len(declared)<pr['seats'], len(E.elected)==min(pr['seats'],len(declared)))]+=1
        # undeclared elected?
        if any(c.isUndeclared for c in E.elected): cnt['undeclared elected']+=1; 
print(cnt)
