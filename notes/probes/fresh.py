# child entry point: NEVER spawns processes
import sys, io, json, contextlib, hashlib
sys.path.insert(0,'/repo'); sys.dont_write_bytecode=True
from droop.profile import ElectionProfile
from droop.election import Election
def out(blt,cfg):
    E=Election(ElectionProfile(data=blt),dict(cfg))
    with contextlib.redirect_stdout(io.StringIO()): E.count()
    return hashlib.sha1((E.report()+E.dump()+E.json()).encode()).hexdigest()
CONFIGS=[{'rule':'wigm','arithmetic':'fixed','precision':4},{'rule':'wigm','arithmetic':'fixed','precision':6,'display':2},{'rule':'wigm','arithmetic':'integer'},
 {'rule':'wigm'},{'rule':'wigm','arithmetic':'guarded','precision':4,'guard':0},{'rule':'wigm','arithmetic':'guarded','precision':3,'guard':3,'display':5},{'rule':'wigm','arithmetic':'guarded','precision':5,'guard':2,'display':2},
 {'rule':'meek','arithmetic':'rational','omega':3},{'rule':'meek','arithmetic':'rational','omega':3,'display':4},{'rule':'meek','arithmetic':'fixed','precision':5},{'rule':'meek-prf'},{'rule':'qpq'},{'rule':'scotland'},{'rule':'mpls'},{'rule':'warren','arithmetic':'guarded','precision':6,'guard':3,'display':8},{'rule':'cfer'},{'rule':'wigm','arithmetic':'rational'}]
BLTS=['4 2 [tie 3 1 2 4] 3 1 2 0 2 2 3 0 2 3 0 1 4 1 0 1 2 1 4 0 0 "a" "b" "c" "d" "t"','3 1 2 1 0 2 2 1 0 1 3 2 0 0 "a" "b" "c" "t"']
if __name__=='__main__':
    print(json.dumps({'%d,%d'%(b,c):out(BLTS[b],CONFIGS[c]) for b in range(len(BLTS)) for c in range(len(CONFIGS))}))
