# C05 DPC prototype
import sys, random, collections, itertools
from drv import *
from fractions import Fraction as F
rng=random.Random(int(sys.argv[1]) if len(sys.argv)>1 else 1)
N=int(sys.argv[2]) if len(sys.argv)>2 else 200
ARITHS={'wigm':[{}, {'arithmetic':'fixed','precision':2},{'arithmetic':'integer'},{'arithmetic':'rational'},{'arithmetic':'fixed','precision':4,'defeat_batch':'zero'},{'arithmetic':'fixed','precision':3,'integer_quota':True}],
  'meek':[{}, {'arithmetic':'fixed','precision':3},{'arithmetic':'fixed','precision':2,'omega':1},{'arithmetic':'guarded','precision':4,'guard':2}],
  'warren':[{}, {'arithmetic':'fixed','precision':3}]}
fails=collections.Counter(); ex={}; seen=collections.Counter()
def fail(k,info): fails[k]+=1; ex.setdefault(k,info)
tot=0
for i in range(N):
    pr=randprofile(rng, maxc=6, maxlines=6, maxm=5, wd=False, und=False, full=rng.random()<0.6)
    # shape: make coalition-ish: reuse prefixes
    blt=mkblt(**pr)
    nc=pr['nc']
    for rule in RULES:
        for ar in ARITHS.get(rule,[{}]):
            opts=dict(rule=rule, **ar)
            r=run(blt,opts,budget=10); tot+=1
            if r['exc']: continue
            E=r['E']; S=scale(E); n=E.nBallots; s=E.nSeats
            q0=r['acts'][0]['quota'] if rule!='mpls' else r['acts'][0]['quota']
            if rule=='qpq': q0=F(n,s+1)*(S or 1)
            allow = 2*n*nc if S else 0
            elected={c.cid for c in E.elected}
            for size in range(1,nc+1):
                for Sset in itertools.combinations(range(1,nc+1),size):
                    Sset=set(Sset)
                    solid=sum(m for m,rk in pr['lines'] if len(rk)>=size and set(rk[:size])==Sset)
                    for k in range(1,s+1):
                        if solid*(S or 1) > k*q0 + allow:
                            seen[rule]+=1
                            if len(elected&Sset) < min(k,size): fail(('DPC',rule,str(ar)),(blt,opts,Sset,k,solid,q0))
print(tot,'runs'); print(sorted(seen.items()))
for k,v in sorted(fails.items(), key=str): print(v,k)
import pprint
for k in list(ex)[:6]: print(k); pprint.pprint(ex[k])
