---------------------------- MODULE Proto ----------------------------
EXTENDS Integers, Sequences, FiniteSets, TLC, SequencesExt, FiniteSetsExt, Functions, Folds
CONSTANTS NC, NB, SEATS, P
Cand == 1..NC
S == 10^P

\* digit-serial floor(a*b/c) for 0<=a, 0<=b, 0<c ; never forms a*b
RECURSIVE MDF(_,_,_,_,_,_)
\* ds: digits of a, most significant first
MDF(ds, i, b, c, q, acc) ==
  IF i > Len(ds) THEN <<q, acc>>
  ELSE LET acc2 == 10*acc + ds[i]*b
       IN MDF(ds, i+1, b, c, 10*q + (acc2 \div c), acc2 % c)
RECURSIVE Digits(_)
Digits(a) == IF a < 10 THEN <<a>> ELSE Append(Digits(a \div 10), a % 10)
MulDivFloor(a,b,c) == MDF(Digits(a), 1, b, c, 0, 0)[1]

\* all strict partial rankings (nonempty), as sequences without repetition
RECURSIVE Perms(_)
Perms(T) == IF T = {} THEN {<<>>} ELSE UNION {{<<x>> \o p : p \in Perms(T \ {x})} : x \in T}
Rankings == UNION {Perms(T) : T \in (SUBSET Cand) \ {{}}}
RkSeq == SetToSeq(Rankings)   \* fixed arbitrary order (TLC: deterministic)
NR == Len(RkSeq)

VARIABLE s
vars == <<s>>

Hopeful(st) == {c \in Cand : st.status[c] = "H"}
Elected(st) == {c \in Cand : st.status[c] = "E"}
Pending(st) == {c \in Cand : st.status[c] = "E" /\ st.pend[c]}
SeatsLeft(st) == SEATS - Cardinality(Elected(st))
SumV(f, T) == FoldSet(LAMBDA c, a: a + f[c], 0, T)

Top(b) == IF b.ix > Len(RkSeq[b.rk]) THEN 0 ELSE RkSeq[b.rk][b.ix]

\* advance ballot to next hopeful
RECURSIVE Adv(_,_)
Adv(b, hop) == IF b.ix > Len(RkSeq[b.rk]) \/ RkSeq[b.rk][b.ix] \in hop THEN b ELSE Adv([b EXCEPT !.ix = @+1], hop)

\* transfer a set of ballot indexes: returns [ballots, vote, exh]
RECURSIVE Xfer(_,_,_,_,_,_)
Xfer(bs, i, from, neww, hop, acc) ==
  IF i > Len(bs) THEN acc
  ELSE IF Top(bs[i]) \in from
       THEN LET b1 == [bs[i] EXCEPT !.w = neww[i]]
                b2 == Adv(b1, hop)
                t == Top(b2)
            IN Xfer(bs, i+1, from, neww, hop,
                 [ballots |-> Append(acc.ballots, b2),
                  vote |-> IF t = 0 THEN acc.vote ELSE [acc.vote EXCEPT ![t] = @ + b2.w],
                  exh |-> IF t = 0 THEN acc.exh + b2.w ELSE acc.exh])
       ELSE Xfer(bs, i+1, from, neww, hop, [acc EXCEPT !.ballots = Append(@, bs[i])])

TieFirst(T) == CHOOSE c \in T : \A d \in T : c <= d   \* tie order = cid

Init == s = [pc |-> "setup", ballots |-> <<>>, last |-> 1]

AddBallot == /\ s.pc = "setup" /\ Len(s.ballots) < NB
             /\ \E r \in s.last..NR :
                  s' = [s EXCEPT !.ballots = Append(@, [rk |-> r, ix |-> 1, w |-> S]), !.last = r]

Begin == /\ s.pc = "setup" /\ Len(s.ballots) = NB
         /\ LET v0 == [c \in Cand |-> S * Cardinality({i \in 1..NB : Top(s.ballots[i]) = c})]
            IN s' = [pc |-> "round", ballots |-> s.ballots, last |-> 0,
                     status |-> [c \in Cand |-> "H"], pend |-> [c \in Cand |-> FALSE],
                     vote |-> v0, quota |-> ((NB*S) \div (SEATS+1)) + 1, exh |-> 0, round |-> 0, tag |-> "begin"]

Continue(st) == Cardinality(Hopeful(st)) > SeatsLeft(st) /\ SeatsLeft(st) > 0

\* one whole round: elect, then transfer high surplus or defeat low
Round == /\ s.pc = "round" /\ Continue(s)
         /\ LET win == {c \in Hopeful(s) : s.vote[c] >= s.quota}
                s1 == [s EXCEPT !.status = [c \in Cand |-> IF c \in win THEN "E" ELSE @[c]],
                                !.pend = [c \in Cand |-> IF c \in win THEN TRUE ELSE @[c]],
                                !.round = @+1]
                pen == Pending(s1)
            IN IF pen # {}
               THEN LET hv == Max({s1.vote[c] : c \in pen})
                        hc == TieFirst({c \in pen : s1.vote[c] = hv})
                        sur == hv - s1.quota
                        neww == [i \in 1..NB |-> MulDivFloor(MulDivFloor(s1.ballots[i].w, sur, S), S, hv)]
                        r == Xfer(s1.ballots, 1, {hc}, neww, Hopeful(s1), [ballots |-> <<>>, vote |-> s1.vote, exh |-> s1.exh])
                    IN s' = [s1 EXCEPT !.ballots = r.ballots, !.vote = [r.vote EXCEPT ![hc] = s1.quota], !.exh = r.exh,
                                       !.pend = [@ EXCEPT ![hc] = FALSE], !.tag = "transfer"]
               ELSE LET lv == Min({s1.vote[c] : c \in Hopeful(s1)})
                        lc == TieFirst({c \in Hopeful(s1) : s1.vote[c] = lv})
                        s2 == [s1 EXCEPT !.status = [@ EXCEPT ![lc] = "D"]]
                        neww == [i \in 1..NB |-> s2.ballots[i].w]
                        r == Xfer(s2.ballots, 1, {lc}, neww, Hopeful(s2), [ballots |-> <<>>, vote |-> s2.vote, exh |-> s2.exh])
                    IN s' = [s2 EXCEPT !.ballots = r.ballots, !.vote = [r.vote EXCEPT ![lc] = 0], !.exh = r.exh, !.tag = "xferdef"]

Finish == /\ s.pc = "round" /\ ~Continue(s)
          /\ LET fill == SeatsLeft(s) > 0
             IN s' = [s EXCEPT !.pc = "done", !.pend = [c \in Cand |-> FALSE],
                               !.status = [c \in Cand |-> IF @[c] = "H" THEN (IF fill THEN "E" ELSE "D") ELSE @[c]], !.tag = "end"]

Next == AddBallot \/ Begin \/ Round \/ Finish
Spec == Init /\ [][Next]_vars

Counting == s.pc \in {"round", "done"}
Conserve == Counting => /\ SumV(s.vote, Cand) + s.exh <= NB*S
                        /\ SumV(s.vote, Cand) + s.exh >= NB*S - 2*NB*s.round
                        /\ \A c \in Cand : s.vote[c] >= 0
Tally == Counting /\ s.pc # "done" => \A c \in Hopeful(s) \cup Pending(s) :
            s.vote[c] = FoldSeq(LAMBDA b, a : IF Top(b) = c THEN a + b.w ELSE a, 0, s.ballots)
Seats == s.pc = "done" => Cardinality(Elected(s)) = SEATS
MDFok == \A a \in 0..60, b \in 0..60, c \in 1..61 : MulDivFloor(a,b,c) = (a*b) \div c
=====================================================================
