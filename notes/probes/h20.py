import sys, os, json, subprocess, itertools, random
HERE=os.path.dirname(os.path.abspath(__file__))
from fresh import out, CONFIGS, BLTS
if __name__=='__main__':
    # NB: the child computes all targets in ONE process too, so take per-config references from separate children
    ref={}
    for b in range(len(BLTS)):
        for c in range(len(CONFIGS)):
            code="import sys; sys.path.insert(0,%r); import fresh; print(fresh.out(fresh.BLTS[%d],fresh.CONFIGS[%d]))"%(HERE,b,c)
            r=subprocess.run([sys.executable,'-c',code],capture_output=True,text=True,timeout=120)
            ref[(b,c)]=r.stdout.strip().splitlines()[-1]
    bad=0;n=0
    for h in itertools.product(range(len(CONFIGS)),repeat=2):
        for t in range(len(CONFIGS)):
            for hc in h: out(BLTS[hc%2],CONFIGS[hc])
            for b in range(len(BLTS)):
                n+=1
                if out(BLTS[b],CONFIGS[t])!=ref[(b,t)]:
                    bad+=1
                    if bad<6: print('DIFF history',h,'target',t,b)
    print(n,'targets',bad,'diffs')
