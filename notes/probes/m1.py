# C01 / C02 / C09 monitors over random scope
import sys, random, collections
from drv import *
rng=random.Random(int(sys.argv[1]) if len(sys.argv)>1 else 1)
N=int(sys.argv[2]) if len(sys.argv)>2 else 300
ARITHS={'wigm':[{}, {'arithmetic':'fixed','precision':2},{'arithmetic':'integer'},{'arithmetic':'rational'},{'arithmetic':'guarded','precision':3,'guard':2},{'arithmetic':'fixed','precision':4,'defeat_batch':'zero'},{'arithmetic':'fixed','precision':1,'integer_quota':'true'}],
        'meek':[{}, {'arithmetic':'fixed','precision':3},{'arithmetic':'fixed','precision':6,'defeat_batch':'none'},{'arithmetic':'guarded','precision':4,'guard':2}],
        'warren':[{}, {'arithmetic':'fixed','precision':3}]}
fails=collections.Counter(); ex=[]
tot=0
for i in range(N):
    pr=randprofile(rng, wd=True, und=True)
    blt=mkblt(**pr)
    for rule in RULES:
        for ar in ARITHS.get(rule,[{}]):
            opts=dict(rule=rule, **ar)
            r=run(blt,opts); tot+=1
            key=(rule,tuple(sorted(ar.items())))
            if r['exc']:
                fails[('EXC',rule,r['exc'][:40])]+=1
                if len(ex)<40: ex.append((opts,blt,r['exc']))
                continue
            E=r['E']; S=scale(E); n=E.nBallots
            elig=[c for c in E.C if c.state!='withdrawn']
            electable=[c for c in elig if not (rule=='mpls' and c.isUndeclared)]
            if len(E.elected)!=min(E.nSeats,len(electable)): fails[('C01count',rule)]+=1; ex.append((opts,blt,'C01'))
            T=0
            prev=None
            for a in r['acts']:
                if rule in GREG:
                    if a['tag']=='transfer' and ('urplus' in a['msg']): T+=1
                    tot_=sum(v for v in a['vote'].values() if v is not None)+a['nt']
                    if S:
                        if tot_>n*S or tot_<n*S-2*n*T: fails[('C02',rule,key[1])]+=1; 
                    else:
                        if tot_!=n: fails[('C02r',rule)]+=1
                if rule in MEEK:
                    tot_=sum(v for v in a['vote'].values() if v is not None)+a['residual']
                    ub = n*S if S else n
                    if tot_>ub: fails[('C02meek>',rule,a['tag'])]+=1
                    if tot_<ub: fails[('C02meek<',rule,a['tag'],a['msg'][:16])]+=1
                if any(v is not None and v<0 for v in a['vote'].values()): fails[('neg',rule)]+=1
                ne=sum(1 for s in a['st'].values() if s=='elected'); nh=sum(1 for s in a['st'].values() if s=='hopeful')
                if ne>E.nSeats: fails[('C09over',rule)]+=1
                if prev:
                    for c in a['st']:
                        p,q=prev['st'][c],a['st'][c]
                        if p!=q and not (p=='hopeful') and not (rule=='qpq' and p=='elected' and q=='hopeful'): fails[('C09mono',rule,p,q)]+=1
                    if a['round']<prev['round']: fails[('C09round',rule)]+=1
                prev=a
print(tot,'runs'); 
for k,v in sorted(fails.items(), key=str): print(v,k)
for e in ex[:6]: print(e)
